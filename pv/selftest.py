"""Thorough tier: self-validation of the checkers against the CURRENT tree.

For the property under test, variants of /repo/pyttb are written to a scratch directory (tempfile.mkdtemp,
outside /repo and /verif, removed in `finally`):
  * must-fire mutants break one construct; the check must report at least one violation that the unchanged
    tree does not have (and, where stated, from the expected rule)
  * must-stay-silent twins are behaviour-preserving rewrites (whole-package reformat through ast.unparse,
    renaming locals, `assert False, m` -> `raise AssertionError(m)`, `a != b` -> `not a == b`); the check must
    report exactly the findings of the unchanged tree
A failure here is an ANALYSIS-ERROR of the checker (exit 2), never a VIOLATION of the repository.
Mutants whose anchor text no longer exists are skipped and counted; too few applicable mutants is a failure.
"""
from __future__ import annotations

import ast
import os
import re
import shutil
import tempfile
from typing import Dict, List, Optional, Tuple

from . import report

# (relative file, old text, new text, expected rule or None)
MUTANTS: Dict[str, List[Tuple[str, str, str, Optional[str]]]] = {
    "C01": [
        ("pyttb/pyttb_utils.py", "[i for i in range(rdims[0] - 1, -1, -1)]", "[i for i in range(rdims[0])]", "CYC"),
        ('pyttb/tensor.py', '        if rdims.size == 0:\n            dims = cdims.copy()', '        if rdims.size == 0:\n            dims = np.arange(n)', 'PS'),
        ('pyttb/tenmat.py', '        if order.size > 1:\n            if not copy:', '        if order.size > 1 and self.rindices.size > 0 and self.cindices.size > 0:\n            if not copy:', 'INV'),
        ("pyttb/tenmat.py", "data = to_memory_order(np.transpose(data, np.argsort(order)), self.order)", "data = to_memory_order(np.transpose(data, order), self.order)", "INV"),
        ("pyttb/tenmat.py", "data = np.reshape(data, np.array(shape)[order], order=self.order)", "data = np.reshape(data, np.array(shape)[order])", "EO-1"),
        ("pyttb/sptensor.py", "cidx = tt_sub2ind(csize, self.subs[:, cdims])", "cidx = tt_sub2ind(csize, self.subs[:, rdims])", "PS"),
        ("pyttb/ktensor.py", "ttb.khatrirao(*self.factor_matrices[:i_split], reverse=True)", "ttb.khatrirao(*self.factor_matrices[:i_split])", "KR"),
    ],
    "C02": [
        ("pyttb/ttensor.py", "tmp = Y.innerprod(self.core)", "tmp = Y.innerprod(Y)", "WDEG"),
        ("pyttb/cp_apr.py", "                Model.factor_matrices[:factorIndex]\n                + Model.factor_matrices[factorIndex + 1 :]", "                Model.factor_matrices[factorIndex + 1 :]\n                + Model.factor_matrices[:factorIndex]", "KR"),
        ('pyttb/tensor.py', '        elif isinstance(selfdims, int):\n            selfdims = np.array([selfdims])', '        else:\n            selfdims, _ = tt_dimscheck(self.ndims, dims=selfdims)', 'PAIRED'),
        ('pyttb/tensor.py', '        Y_data = np.transpose(Y_data, np.argsort(order))\n        return ttb.tensor(Y_data, copy=True)', '        Y_data = np.array(np.transpose(Y_data, np.argsort(order)), dtype=self.data.dtype, order=self.order)\n        return ttb.tensor(Y_data, copy=False)', 'DTYPE'),
        ('pyttb/sptensor.py', '        c = ttb.sptensor.from_aggregator(newsubs, newvals, tuple(newsiz))', '        c = ttb.sptensor(newsubs, newvals, tuple(newsiz))', 'AGG'),
        ('pyttb/tensor.py', '        if self.ndims > 1:\n            c = np.transpose(c, np.concatenate((remdims, dims)))', '        if self.ndims > 1 and (self.ndims - 1) in remdims:\n            c = np.transpose(c, np.concatenate((remdims, dims)))', 'MOVE'),
        ('pyttb/ktensor.py', '        W = np.tile(self.weights[:, None], (1, R))', '        W = np.ones((self.ncomponents, R))', 'WDEG'),
        ('pyttb/tensor.py', '            V = np.zeros((szn, R), order=self.order)', '            V = np.zeros((szn, R), dtype=self.data.dtype, order=self.order)', 'DTYPE'),
        ("pyttb/tensor.py", "            c = c.dot(vector[vidx[i]])", "            c = c.dot(vector[i])", "VIDX"),
        ("pyttb/pyttb_utils.py", "        if n == 0:\n            U.redistribute(1)", "        if n == 0:\n            U.redistribute(0)", "WEIGHTS"),
        ("pyttb/ttensor.py", "        U = ttb_utils.get_mttkrp_factors(U, n, self.ndims)", "        if isinstance(U, ttb.ktensor):\n            U = U.factor_matrices", "WEIGHTS"),
        ("pyttb/sumtensor.py", "        for part in self.parts[1:]:\n            result += part.mttkrp(U, n)", "        for part in self.parts[2:]:\n            result += part.mttkrp(U, n)", "FOLD"),
    ],
    "C03": [
        ("pyttb/tensor.py", "return np.logical_xor(x, y).astype(dtype=x.dtype)", "return np.logical_xor(x > 0, y > 0).astype(dtype=x.dtype)", "LOGIC"),
        ('pyttb/sptensor.py', 'operator(self.extract(subs3), other.extract(subs3))', 'operator(self.vals[tt_intersect_rows(self.subs, other.subs)], other.vals[tt_intersect_rows(other.subs, self.subs)])', 'IX-seq'),
        ("pyttb/sptensor.py", "            _, idxOther = tt_ismember_rows(self.subs[idxSelf], other.subs)\n            return ttb.sptensor(", "            idxOther = tt_intersect_rows(other.subs, self.subs)\n            return ttb.sptensor(", "IX-seq"),
        ("pyttb/sptensor.py", "lambda x: len(x) == 2", "lambda x: len(x) >= 1", "CNTPRED"),
        ("pyttb/sptensor.py", "return self._compare(other, lt, gt)", "return self._compare(other, lt, ge)", "CONV"),
        ("pyttb/sptensor.py", "idx = np.where(vals != 0)[0]", "idx = np.where(vals > 0)[0]", "ZERO"),
        ("pyttb/sptensor.py", "cvals = self.vals * np.atleast_1d(other[csubs])[:, None]", "cvals = self.vals * other[csubs][:, None]", "SC"),
    ],
    "C04": [
        ('pyttb/sptensor.py', '                sliceRegion = range(0, self.shape[i])[region[i]]\n                tf = np.isin(self.subs[loc, i], sliceRegion)', '                start = region[i].start or 0\n                stop = region[i].stop or self.shape[i]\n                tf = (self.subs[loc, i] >= start) & (self.subs[loc, i] < stop)', 'SLICE'),
        ('pyttb/sptensor.py', '                self.subs = newsubs[idxc, :]\n                self.vals = newvals[idxc]\n\n        # Resize the tensor', '                self.subs = newsubs[idxc, :]\n                self.vals = newvals[idxc]\n        else:\n            return\n\n        # Resize the tensor', 'GROW'),
        ("pyttb/sptensor.py", "            removesubs = tf[idxb]", "            removesubs = np.where(idxb)[0]", "IX-dom"),
        ("pyttb/sptensor.py", "        idxa = np.logical_and(found, nonzero_new)", "        idxa = np.logical_and(found, newvals != 0)", "IX-kind"),
        ("pyttb/tensor.py", "        idx = tt_ind2sub(self.shape, idx)\n        if idx.shape[0] == 1:", "        idx = tt_ind2sub(self.shape, idx, order=\"C\")\n        if idx.shape[0] == 1:", "EO-1"),
    ],
    "C05": [
        ("pyttb/tensor.py", "a = ttb.tensor(newdata, copy=True)", "a = ttb.tensor(np.asfortranarray(newdata), copy=False)", "AL-ret"),
        ("pyttb/tensor.py", "return ttb.tensor(np.transpose(self.data, order), copy=True)", "return ttb.tensor(np.transpose(self.data, order), copy=False)", "AL-ret"),
        ("pyttb/sptensor.py", "return self.subs.copy(), self.vals.copy()", "return self.subs, self.vals", "AL-ret"),
        ("pyttb/hosvd.py", "ranks = parse_one_d(ranks).copy()", "ranks = parse_one_d(ranks)", "AL-mut"),
        ("pyttb/ktensor.py", "        A = self.copy().normalize()", "        A = self.normalize()", "AL-mut"),
        ("pyttb/tensor.py", "            self.data = data.copy(self.order)", "            self.data = data", None),
        ("pyttb/ktensor.py", "                self.weights = new_value", "                self.weights = data[0 : self.ncomponents]", "AL-cap"),
    ],
    "C06": [
        ('pyttb/sptensor.py', '                loc = tt_intersect_rows(self.subs, addsubs)\n                self.vals[loc] = value', '                loc = tt_intersect_rows(addsubs, self.subs)\n                self.vals[loc] = value', 'IX-dom'),
        ("pyttb/sptensor.py", "        vals[valid] = self.vals[matching_indices]", "        vals[matching_indices] = self.vals[matching_indices]", "IX-dom"),
        ("pyttb/sptensor.py", "True * np.ones((subs.shape[0], 1)).astype(self.vals.dtype)", "True * np.ones((self.subs.shape[0], 1)).astype(self.vals.dtype)", None),
        ("pyttb/sptensor.py", "                _, idxOther = tt_ismember_rows(self.subs[idxSelf], other.subs)\n                newsubs", "                idxOther = tt_intersect_rows(other.subs, self.subs)\n                newsubs", "IX-seq"),
        ("pyttb/sptensor.py", "                    newsubs = np.vstack((newsubs, self.subs[moresubs, :]))\n                    newvals = np.vstack((newvals, morevals))\n\n            # other nonzero", "                    newsubs = np.vstack((newsubs, SelfZeroSubs[moresubs, :]))\n                    newvals = np.vstack((newvals, morevals))\n\n            # other nonzero", "IX-dom"),
    ],
    "C07": [
        ("pyttb/sptensor.py", "                np.array([]),\n                np.array([]),\n                np.concatenate((keep_shape, new_shape)),", "                np.array([]),\n                np.array([]),\n                np.concatenate((keep_shape, old_shape)),", "RSHAPE"),
        ('pyttb/tensor.py', '        return ttb.tensor(np.transpose(self.data, order), copy=True)', '        if order[0] == 0:\n            return ttb.tensor(self.data, tuple(np.array(self.shape)[order]), copy=True)\n        return ttb.tensor(np.transpose(self.data, order), copy=True)', 'FWD'),
        ("pyttb/sptensor.py", "self.subs[:, order], self.vals, tuple(np.array(self.shape)[order])", "self.subs[:, order], self.vals, tuple(np.array(self.shape)[np.argsort(order)])", None),
        ("pyttb/tensor.py", "self.data.reshape(shape, order=self.order), shape, copy=True", "self.data.reshape(shape, order=\"C\"), shape, copy=True", "EO-1"),
        ("pyttb/ktensor.py", "[self.factor_matrices[i] for i in order]", "[self.factor_matrices[i] for i in np.argsort(order)]", "FWD"),
        ("pyttb/ttensor.py", "new_u = [self.factor_matrices[idx] for idx in order]", "new_u = [self.factor_matrices[idx] for idx in np.argsort(order)]", None),
    ],
    "C08": [
        ("pyttb/ktensor.py", "D = np.diag(np.power(self.weights, 1.0 / self.ndims))", "D = np.diag(np.power(self.weights, 1.0 / self.ncomponents))", "SCALE"),
        ("pyttb/ktensor.py", "tmp = np.linalg.norm(self.factor_matrices[mode][:, r], ord=normtype)", "tmp = np.linalg.norm(self.factor_matrices[mode][:, r])", "NORMARG"),
        ('pyttb/ktensor.py', '                        1.0 / tmp * self.factor_matrices[mode][:, r]\n                    )\n                self.weights[r] = self.weights[r] * tmp', '                        1.0 / tmp * self.factor_matrices[mode][:, r]\n                    )\n                    self.weights[r] = self.weights[r] * tmp', 'SCALE'),
        ('pyttb/ktensor.py', '                p = np.argsort(self.weights)[::-1]\n                self.arrange(permutation=p)', '                p = np.argsort(self.weights)[::-1]\n                self.weights[:] = np.abs(self.weights)\n                self.arrange(permutation=p)', 'PS-k'),
        ('pyttb/ktensor.py', '        D = np.diag(np.power(np.fabs(self.weights), 1.0 / self.ndims))\n        factor_matrices = self.factor_matrices.copy()\n        factor_matrices[0] = factor_matrices[0] @ np.diag(lsgn)', '        D = np.diag(lsgn * np.power(np.fabs(self.weights), 1.0 / self.ndims))\n        factor_matrices = self.factor_matrices.copy()', 'SCALE'),
        ('pyttb/ktensor.py', '                nflip = int(2 * np.floor(np.size(negidx) / 2))\n\n                for i in range(nflip):\n                    n = negidx[i]', '                nflip = 2 * round(np.size(negidx) / 2)\n\n                for n in negidx[:nflip]:', 'PARITY'),
        ("pyttb/ktensor.py", "                    endpt = breakpt + 2", "                    endpt = breakpt + 1", "PARITY"),
        ("pyttb/ktensor.py", "                nflip = int(2 * np.floor(np.size(negidx) / 2))", "                nflip = int(np.size(negidx))", "PARITY"),
        ("pyttb/ktensor.py", "                    new_factor_matrices.append(self.factor_matrices[i][:, components])", "                    new_factor_matrices.append(self.factor_matrices[i][:, sorted(components)])", "PS-k"),
        ("pyttb/ktensor.py", "data[mstart:mend].copy(), (shape_n, num_components), order=\"F\"", "data[mstart:mend].copy(), (shape_n, num_components), order=\"C\"", "EO-3"),
        ("pyttb/ktensor.py", "            self.weights[r] = 1\n        return self", "        return self", "ABSORB"),
    ],
    "C09": [
        ("pyttb/cp_als.py", "    M.arrange()\n    # Fix the signs if requested", "    # Fix the signs if requested", "NORMAL"),
        ("pyttb/cp_als.py", "normresidual = np.sqrt(np.abs(normX**2 + M.norm() ** 2 - 2 * iprod))", "normresidual = np.sqrt(np.abs(normX**2 + M.norm() ** 2 - iprod))", "FIT"),
        ("pyttb/cp_als.py", "            U[n] = Unew\n            UtU[:, :, n] = U[n].T @ U[n]", "            U[n] = Unew", "GRAM"),
        ("pyttb/cp_als.py", "    U = init.copy().factor_matrices", "    U = init.factor_matrices", "INIT"),
    ],
    "C10": [
        ("pyttb/hosvd.py", "eigsumthresh = ((tol**2) * normxsqr) / d", "eigsumthresh = max(((tol**2) * normxsqr) / d, np.finfo(float).eps)", "THR"),
        ("pyttb/hosvd.py", "G = Y.ttm(factor_matrices, transpose=True)", "G = Y.ttm(factor_matrices, dimorder, transpose=True)", "TTM-T"),
        ("pyttb/hosvd.py", "ranks[k] = np.where(eigsum > eigsumthresh)[0][-1] + 1", "ranks[k] = np.where(eigvec > eigsumthresh)[0][-1] + 1", "THR"),
        ('pyttb/tucker_als.py', '        for n in dimorder:\n', '        for n, rank_n in zip(dimorder, rank):\n', 'SLOT'),
        ("pyttb/hosvd.py", "factor_matrices[k] = V[:, pi[0 : ranks[k]]]", "factor_matrices[k] = V[:, pi[0 : ranks[k] + 1]]", "UNITS"),
        ("pyttb/hosvd.py", "eigsumthresh = ((tol**2) * normxsqr) / d", "eigsumthresh = (tol * normxsqr) / d", "THR"),
        ("pyttb/hosvd.py", "Y = Y.ttm(factor_matrices[k].transpose(), int(k))", "Y = Y.ttm(factor_matrices[k], int(k))", "TTM-T"),
        ("pyttb/hosvd.py", "pi = np.argsort(-D, kind=\"quicksort\")", "pi = np.argsort(D, kind=\"quicksort\")", "EIG"),
        ("pyttb/tucker_als.py", "normresidual = np.sqrt(abs(normX**2 - core.norm() ** 2))", "normresidual = np.sqrt(abs(normX**2 - core.norm()))", "FIT"),
    ],
    "C11": [
        ("pyttb/cp_apr.py", "    f = 0\n    for i in range(dX.shape[0]):\n", "    f = np.sum(dX * np.log(dM, where=dM > 0, out=np.zeros_like(dM)))\n    for i in range(0):\n", "LL"),
        ('pyttb/cp_apr.py', '        skip_zeros = data_row != 0', '        skip_zeros = b_pi > 0', 'LL'),
        ("pyttb/cp_apr.py", "        model_new = model_old * phi_row  # multiplicative update\n\n        # Project to the constraints and reevaluate the subproblem objective\n        model_new *= model_new > 0\n", "        model_new = model_old * phi_row  # multiplicative update\n\n", "PROJ"),
        ("pyttb/cp_apr.py", "\"kktViolations\": kktViolations[: iteration + 1],\n        \"nInnerIters\"", "\"kktViolations\": kktViolations[:iteration],\n        \"nInnerIters\"", "TRACE"),
        ("pyttb/cp_apr.py", "    for iteration in range(maxiters):\n        isConverged = True\n        for n in range(N):\n            # Make adjustments", "    for iteration in range(maxiters + 1):\n        isConverged = True\n        for n in range(N):\n            # Make adjustments", "LOOP"),
    ],
    "C12": [
        ("pyttb/tensor.py", "V[k] = mttv_mid(W, U[k + 1 : split_idx + 1])", "V[k] = mttv_mid(W, U[k + 1 : split_idx])", "SPLIT"),
        ('pyttb/gcp/fg.py', '            Y *= weights\n        F = float(np.sum(Y))', '            Y[weights == 0] = 0\n        F = float(np.sum(Y))', 'FG-agree'),
        ("pyttb/gcp/handles.py", "    return 1 - data / (model + EPS)", "    return 1 - data / (model + EPS) ** 2", "GRAD-deriv"),
        ("pyttb/gcp/fg_setup.py", "        function_handle = handles.poisson\n        gradient_handle = handles.poisson_grad\n        lower_bound = 0.0", "        function_handle = handles.poisson\n        gradient_handle = handles.poisson_grad\n        lower_bound = -np.inf", "DOM-lb"),
        ("pyttb/gcp/fg.py", "        Y = gradient_handle(data.data, full_model.data)\n        if weights is not None:\n            Y *= weights", "        Y = gradient_handle(data.data, full_model.data)", "FG-agree"),
        ("pyttb/gcp/fg_setup.py", "        gradient_handle = handles.rayleigh_grad", "        gradient_handle = handles.gamma_grad", "GRAD-deriv"),
    ],
    "C13": [
        ("pyttb/gcp/samplers.py", "zero_weights = (np.prod(data.shape) / num_zeros) * np.ones((num_zeros,))", "zero_weights = ((np.prod(data.shape) - data.nnz) / num_zeros) * np.ones((num_zeros,))", "SMP-wt"),
        ("pyttb/gcp/optimizers.py", "        model = initial_model.copy()\n        self.reset()", "        model = initial_model.copy()\n        self._nfails = 0", "ST-reuse"),
        ("pyttb/gcp/optimizers.py", "            np.maximum(lower_bound, factor_k - step * gk)", "            factor_k - step * gk", "BND-proj"),
        ("pyttb/gcp/optimizers.py", "\"f_est_trace\": fest_trace[0 : n_epoch + 2],", "\"f_est_trace\": fest_trace[0 : n_epoch + 1],", "TR-cover"),
        ("pyttb/gcp/optimizers.py", "                model = best_model.copy()", "                model = best_model", "BM-sync"),
        ("pyttb/gcp/optimizers.py", "        self._solver_kwargs[\"callback\"] = monitor.callback", "        pass", "ST-slot"),
    ],
    "C14": [
        ('pyttb/pyttb_utils.py', '                cdims = rdims\n                rdims = np.setdiff1d(alldims, rdims)', '                cdims = rdims\n                rdims = np.roll(np.arange(ndims), -rdims[0])[1:]', 'EIG-unf'),
        ('pyttb/tensor.py', '            w, v = scipy.sparse.linalg.eigsh(y, r)\n            v = v[:, (-np.abs(w)).argsort()]', '            w, v = scipy.sparse.linalg.eigsh(y, r)\n            v = v / np.sqrt(np.abs(w))\n            v = v[:, (-np.abs(w)).argsort()]', 'EIG-gram'),
        ('pyttb/ktensor.py', '        M = self.weights[:, None] @ self.weights[:, None].T\n        for i in range(self.ndims):', '        M = np.tile(self.weights[:, None], (1, self.ncomponents))\n        for i in range(self.ndims):', 'EIG-gram'),
        ('pyttb/tensor.py', '            w, v = scipy.linalg.eigh(y)\n            v = v[:, (-np.abs(w)).argsort()]\n            v = v[:, :r]', '            v, _, _ = scipy.linalg.svd(Xn, full_matrices=False)\n            v = v[:, :r]', 'EIG-ret'),
        ("pyttb/ktensor.py", "            w, v = scipy.linalg.eigh(y)\n            v = v[:, (-np.abs(w)).argsort()]", "            w, v = scipy.linalg.eigh(y)\n            v = v[(-np.abs(w)).argsort()]", "EIG-ret"),
        ("pyttb/ttensor.py", "            w, v = scipy.linalg.eigh(Y)\n            v = v[:, (-np.abs(w)).argsort()]", "            w, v = scipy.linalg.eigh(Y)\n            v = v[:, (np.abs(w)).argsort()]", "EIG-ret"),
        ("pyttb/ttensor.py", "            idx = np.argmax(np.abs(v), axis=0)", "            idx = np.argmax(np.abs(v), axis=1)", "EIG-sign"),
    ],
    "C15": [
        ("pyttb/tensor.py", "                ):\n                    continue\n\n                # Take average over all elements in the same class", "                ):\n                    break\n\n                # Take average over all elements in the same class", "ALLGRP"),
        ('pyttb/ktensor.py', '                    weights[j] = -weights[j]\n            V = V + fmi', '                    weights[j] = -1.0\n            V = V + fmi', 'SIGNPAIR'),
        ('pyttb/tensor.py', '                    != self.data[tuple(classidx.transpose())]\n                ):\n                    return False\n\n            # We survived all the tests!\n            return True', '                    != self.data[tuple(classidx.transpose())]\n                ):\n                    is_sym = False\n                else:\n                    is_sym = True\n\n            # We survived all the tests!\n            return is_sym', 'ALLGRP'),
        ("pyttb/tensor.py", "classSum = accumarray(linclassidx, data.ravel(order=self.order))", "classSum = accumarray(linclassidx, data.ravel())", "EO-2"),
        ("pyttb/tensor.py", "                    self.data.ravel(order=self.order)\n                    != self.data[tuple(classidx.transpose())]", "                    self.data.ravel(order=\"C\")\n                    != self.data[tuple(classidx.transpose())]", "EO-2"),
    ],
    "C16": [
        ("pyttb/import_data.py", "    subs = np.zeros((nz, n), dtype=\"int64\")\n", "    index_base = index_base or 1\n    subs = np.zeros((nz, n), dtype=\"int64\")\n", "IO-base"),
        ('pyttb/export_data.py', '    data.tofile(fp, sep="\\n", format=fmt_data)', '    np.ravel(data, order="K").tofile(fp, sep="\\n", format=fmt_data)', 'IO-layout'),
        ("pyttb/export_data.py", "    if not fmt_data:\n        fmt_data = \"%.16e\"\n    data.tofile(fp, sep=\"\\n\", format=fmt_data)", "    if not fmt_data:\n        fmt_data = \"%.8e\"\n    data.tofile(fp, sep=\"\\n\", format=fmt_data)", "IO-fmt"),
        ("pyttb/export_data.py", "subs = A.subs[i, :] + 1", "subs = A.subs[i, :]", "IO-base"),
        ("pyttb/export_data.py", "export_array(fp, data.data.transpose(), fmt_data)", "export_array(fp, data.data, fmt_data)", "IO-layout"),
        ("pyttb/import_data.py", "            nz = import_nnz(fp)\n", "            nz = 0\n", "IO-seq"),
    ],
    "C17": [
        ('pyttb/pyttb_utils.py', '    return np.sort(idxA)[location[valid]]', '    return location[valid]', 'HELP-space'),
        ("pyttb/pyttb_utils.py", "    subs: np.ndarray,\n    order: MemoryLayout = \"F\",", "    subs: np.ndarray,\n    order: MemoryLayout = \"C\",", "IDX-inv"),
        ("pyttb/pyttb_utils.py", "            vidx = sidx\n        else:", "            vidx = sdims\n        else:", "DIMS"),
        ("pyttb/khatrirao.py", "np.reshape(i, newshape=(-1, 1, ncolFirst)) * np.reshape(\n            P, newshape=(1, -1, ncolFirst), order=\"F\"", "np.reshape(i, newshape=(1, -1, ncolFirst)) * np.reshape(\n            P, newshape=(-1, 1, ncolFirst), order=\"F\"", "KRAX"),
        ("pyttb/pyttb_utils.py", "    valid, location = tt_ismember_rows(\n        MatrixBUnique[np.argsort(idxB)], MatrixAUnique[np.argsort(idxA)]\n    )\n    return location[valid]", "    valid, location = tt_ismember_rows(\n        MatrixBUnique[np.argsort(idxB)], MatrixAUnique\n    )\n    return location[valid]", "HELP-dom"),
    ],
    "C18": [
        ("pyttb/hosvd.py", "eigsumthresh = ((tol**2) * normxsqr) / d", "eigsumthresh = max(((tol**2) * normxsqr) / d, np.finfo(float).eps)", "SCALE"),
        ("pyttb/gcp_opt.py", "        init.normalize(\"all\")\n        return init", "        init.copy().normalize(\"all\")\n        return init", "EFFECT"),
        ('pyttb/cp_apr.py', '                mu = mu0\n', '                pass\n', 'ROWS'),
        ("pyttb/tucker_als.py", "            print(f\" Iter {iteration}: fit = {fit:e} fitdelta = {fitchange:7.1e}\")", "            fitchange = float(f\"{fitchange:7.1e}\")\n            print(f\" Iter {iteration}: fit = {fit:e} fitdelta = {fitchange:7.1e}\")", "TAINT"),
        ("pyttb/hosvd.py", "    if verbosity > 0:\n        print(\"Computing HOSVD...\\n\")", "    if verbosity > 0:\n        print(\"Computing HOSVD...\\n\")\n        np.random.seed(0)", None),
        ("pyttb/cp_als.py", "    if printitn > 0:\n        print(\"CP_ALS:\")", "    if printitn > 0:\n        print(\"CP_ALS:\")\n        maxiters = max(maxiters, 1)", "TAINT"),
    ],
    "C19": [
        ("pyttb/tensor.py", "        if prod(self.shape) != prod(shape):\n            assert False, \"Reshaping a tensor cannot change number of elements\"", "        if prod(self.shape) < prod(shape):\n            assert False, \"Reshaping a tensor cannot change number of elements\"", "GD-raise"),
        ("pyttb/pyttb_utils.py", "        and (subs >= 0).all()\n", "", "GD-accept"),
        ("pyttb/sptensor.py", "        tt_subscheck(subs, False)\n", "", "GD-call"),
        ("pyttb/ktensor.py", "        for k, new_value in updates:\n            if k == -1:\n                self.weights = new_value", "        for k, new_value in updates:\n            if len(data) > 10**6:\n                assert False, \"too long\"\n            if k == -1:\n                self.weights = new_value", "ES-order"),
        ("pyttb/tensor.py", "        if self.ndims == 1 and (order == 1).all():", "        if (order == 1).all():", "GD-val"),
    ],
    "C20": [
        ("pyttb/pyttb_utils.py", "    if isinstance(shape, (int, np.integer)):\n        return (shape,)", "    if isinstance(shape, int):\n        return (shape,)", "INTKIND"),
        ('pyttb/sptensor.py', '    return sptensor.from_aggregator(subs, elements.reshape((N, 1)), constructed_shape)', '    return sptensor(subs, elements.reshape((N, 1)), constructed_shape)', 'DIAG'),
        ('pyttb/tensor.py', '    subs = np.tile(np.arange(0, N)[:, None], (len(constructed_shape),))\n    X[subs] = elements', '    stride = int(np.sum(np.cumprod((1,) + constructed_shape[1:])))\n    X[np.arange(0, N) * stride] = elements', 'DIAG'),
        ("pyttb/tensor.py", "    def ones(shape: Tuple[int, ...]) -> np.ndarray:\n        return np.ones(shape, order=order)", "    def ones(shape: Tuple[int, ...]) -> np.ndarray:\n        return np.zeros(shape, order=order)", "GEN-fill"),
        ("pyttb/sptensor.py", "            subs = np.unique(subs, axis=0)\n            cnt += 1", "            cnt += 1", "GEN-uniq"),
        ("pyttb/sptensor.py", "        vals = function_handle((nonzeros, 1))\n\n        # Store everything", "        vals = function_handle((nonzeros + 1, 1))\n\n        # Store everything", "GEN-cnt"),
        ("pyttb/sptensor.py", "    subs = np.tile(np.arange(0, N).transpose(), (len(constructed_shape), 1)).transpose()", "    subs = np.tile(np.arange(0, N).transpose(), (N, 1)).transpose()", "DIAG"),
        ("pyttb/cp_als.py", "                np.random.uniform(0, 1, (input_tensor.shape[n], rank))", "                np.random.default_rng().uniform(0, 1, (input_tensor.shape[n], rank))", "RNG"),
    ],
}

RENAMES = [("newsubs", "nsubs_renamed"), ("idxSelf", "ix_self"), ("newdata", "nd_renamed"), ("dim_array", "dimarr"), ("sort_sgn_score", "sss"),
           ("classidx", "cidx_cls"), ("fest_trace", "festtrace"), ("eigsumthresh", "thr_eigsum")]


def _copy_repo(repo: str) -> str:
    d = tempfile.mkdtemp(prefix="pv-selftest-")
    shutil.copytree(os.path.join(repo, "pyttb"), os.path.join(d, "pyttb"), ignore=shutil.ignore_patterns("__pycache__"))
    if os.path.isdir(os.path.join(repo, "docs")):
        shutil.copytree(os.path.join(repo, "docs"), os.path.join(d, "docs"))
    return d


def _violations(pid: str, repo: str):
    from .cli import run_rules
    res = run_rules(pid, repo, "quick")
    keys = set()
    for i in res.instances:
        if i.verdict == report.VIOLATION:
            keys.add((i.rule, i.function, i.descriptor))
    return keys, res


def _py_files(root: str):
    for r, _d, files in os.walk(os.path.join(root, "pyttb")):
        for f in files:
            if f.endswith(".py"):
                yield os.path.join(r, f)


def _twin_reformat(d: str) -> None:
    for p in _py_files(d):
        src = open(p, encoding="utf-8").read()
        open(p, "w", encoding="utf-8").write(ast.unparse(ast.parse(src)) + "\n")


def _twin_rename(d: str) -> int:
    n = 0
    for p in _py_files(d):
        src = open(p, encoding="utf-8").read()
        new = src
        for a, b in RENAMES:
            new = re.sub(rf"(?<![A-Za-z0-9_.\"'])\b{a}\b(?![A-Za-z0-9_\"'])", b, new)
        if new != src:
            n += 1
            open(p, "w", encoding="utf-8").write(new)
    return n


def _twin_rename_all(d: str) -> int:
    """Rename EVERY local variable of every function (not parameters, not names bound by import / except / global / nonlocal, not names
    shadowed by a nested function's parameter) to <name>_rn.  Behaviour-preserving; exposes any rule that depends on a local's name."""
    import builtins
    n = 0
    for p in _py_files(d):
        tree = ast.parse(open(p, encoding="utf-8").read())
        module_names = set()
        for node in tree.body:
            for x in ast.walk(node) if not isinstance(node, (ast.FunctionDef, ast.AsyncFunctionDef, ast.ClassDef)) else []:
                if isinstance(x, ast.Name):
                    module_names.add(x.id)
            if isinstance(node, (ast.FunctionDef, ast.AsyncFunctionDef, ast.ClassDef)):
                module_names.add(node.name)
            if isinstance(node, (ast.Import, ast.ImportFrom)):
                for a in node.names:
                    module_names.add((a.asname or a.name).split(".")[0])

        def top_functions(node):
            for c in ast.iter_child_nodes(node):
                if isinstance(c, (ast.FunctionDef, ast.AsyncFunctionDef)):
                    yield c
                elif isinstance(c, ast.ClassDef):
                    yield from top_functions(c)

        for fn in top_functions(tree):
            params, stored, blocked, loaded_before = set(), set(), set(), set()
            for x in ast.walk(fn):
                if isinstance(x, (ast.FunctionDef, ast.AsyncFunctionDef, ast.Lambda)):
                    a = x.args
                    for arg in a.posonlyargs + a.args + a.kwonlyargs + ([a.vararg] if a.vararg else []) + ([a.kwarg] if a.kwarg else []):
                        params.add(arg.arg)
                    if isinstance(x, (ast.FunctionDef, ast.AsyncFunctionDef)) and x is not fn:
                        blocked.add(x.name)
                elif isinstance(x, ast.Name) and isinstance(x.ctx, (ast.Store, ast.Del)):
                    stored.add(x.id)
                elif isinstance(x, (ast.Global, ast.Nonlocal)):
                    blocked.update(x.names)
                elif isinstance(x, ast.ExceptHandler) and x.name:
                    blocked.add(x.name)
                elif isinstance(x, (ast.Import, ast.ImportFrom)):
                    for a in x.names:
                        blocked.add((a.asname or a.name).split(".")[0])
                elif isinstance(x, ast.ClassDef):
                    blocked.add(x.name)
            locals_ = {v for v in stored if v not in params and v not in blocked and v != "_" and not hasattr(builtins, v) and v not in module_names}
            if not locals_:
                continue
            for x in ast.walk(fn):
                if isinstance(x, ast.Name) and x.id in locals_:
                    x.id = x.id + "_rn"
                    n += 1
        open(p, "w", encoding="utf-8").write(ast.unparse(tree) + "\n")
    return n


def _twin_raise(d: str) -> int:
    """`assert False, msg` -> `raise AssertionError(msg)` ; `if a != b:` -> `if not a == b:` (simple one-line forms)."""
    n = 0
    for p in _py_files(d):
        tree = ast.parse(open(p, encoding="utf-8").read())
        changed = False

        class T(ast.NodeTransformer):
            def visit_Assert(self, node):
                nonlocal changed
                if isinstance(node.test, ast.Constant) and node.test.value is False:
                    changed = True
                    args = [node.msg] if node.msg is not None else []
                    return ast.copy_location(ast.Raise(exc=ast.Call(func=ast.Name(id="AssertionError", ctx=ast.Load()), args=args, keywords=[]), cause=None), node)
                return node

            def visit_If(self, node):
                nonlocal changed
                self.generic_visit(node)
                t = node.test
                if isinstance(t, ast.Compare) and len(t.ops) == 1 and isinstance(t.ops[0], ast.NotEq) and node.body and \
                        isinstance(node.body[0], (ast.Raise, ast.Assert)):
                    changed = True
                    node.test = ast.UnaryOp(op=ast.Not(), operand=ast.Compare(left=t.left, ops=[ast.Eq()], comparators=t.comparators))
                return node

        new = T().visit(tree)
        if changed:
            n += 1
            ast.fix_missing_locations(new)
            open(p, "w", encoding="utf-8").write(ast.unparse(new) + "\n")
    return n


def _twin_respell(d: str) -> int:
    """Mechanical, behaviour-preserving re-spellings that exercise the load-time normal form (pv/inline.py, pv/normal.py):
       * the final `return <expr>` of every function moves into a nested helper that is called at once (a closure without parameters);
       * `if c: A else: B` (no elif on either side) becomes `if not c: B else: A`;
       * `x = <expr>` immediately followed by `return x` becomes `return <expr>`."""
    n = 0
    for p in _py_files(d):
        tree = ast.parse(open(p, encoding="utf-8").read())
        changed = False

        class T(ast.NodeTransformer):
            def visit_If(self, node):
                nonlocal changed
                self.generic_visit(node)
                if node.orelse and not (len(node.orelse) == 1 and isinstance(node.orelse[0], ast.If)) \
                        and not (len(node.body) == 1 and isinstance(node.body[0], ast.If)) \
                        and not (isinstance(node.test, ast.UnaryOp) and isinstance(node.test.op, ast.Not)):
                    changed = True
                    node.test = ast.UnaryOp(op=ast.Not(), operand=node.test)
                    node.body, node.orelse = node.orelse, node.body
                return node

            def _fn(self, node):
                nonlocal changed
                self.generic_visit(node)
                if any(isinstance(x, (ast.Yield, ast.YieldFrom, ast.Await)) for x in ast.walk(node)):
                    return node
                last = node.body[-1] if node.body else None
                if isinstance(last, ast.Return) and last.value is not None and not isinstance(last.value, (ast.Name, ast.Constant)) \
                        and not any(isinstance(x, (ast.NamedExpr, ast.Lambda)) for x in ast.walk(last.value)) \
                        and not any(isinstance(x, ast.Call) and isinstance(x.func, ast.Name) and x.func.id in ("super", "locals", "vars") for x in ast.walk(last.value)):
                    used = {x.id for x in ast.walk(node) if isinstance(x, ast.Name)} | {a.arg for a in ast.walk(node) if isinstance(a, ast.arg)}
                    name = "_result_of_" + node.name.strip("_")
                    if name not in used:
                        helper = ast.FunctionDef(name=name, args=ast.arguments(posonlyargs=[], args=[], kwonlyargs=[], kw_defaults=[], defaults=[]),
                                                 body=[ast.Return(value=last.value)], decorator_list=[], returns=None, type_comment=None)
                        try:
                            helper.type_params = []
                        except Exception:
                            pass
                        call = ast.Return(value=ast.Call(func=ast.Name(id=name, ctx=ast.Load()), args=[], keywords=[]))
                        node.body[-1:] = [helper, call]
                        changed = True
                return node

            visit_FunctionDef = _fn
        new = T().visit(tree)
        if changed:
            n += 1
            ast.fix_missing_locations(new)
            open(p, "w", encoding="utf-8").write(ast.unparse(new) + "\n")
    return n


def run(pid: str, repo: str, seed: int = 0) -> dict:
    out = {"mutants_applied": 0, "mutants_fired": 0, "mutants_skipped": [], "twins_run": 0, "twins_silent": 0, "failures": [], "details": []}
    base, _ = _violations(pid, repo)
    muts = MUTANTS.get(pid, [])
    scratch = []
    try:
        for rel, old, new, rule in muts:
            src_path = os.path.join(repo, rel)
            if not os.path.exists(src_path) or open(src_path, encoding="utf-8").read().count(old) != 1:
                out["mutants_skipped"].append(f"{rel}: anchor text not found exactly once: {old[:50]!r}")
                continue
            d = _copy_repo(repo)
            scratch.append(d)
            p = os.path.join(d, rel)
            s = open(p, encoding="utf-8").read()
            open(p, "w", encoding="utf-8").write(s.replace(old, new))
            try:
                compile(open(p, encoding="utf-8").read(), p, "exec")
            except SyntaxError as e:
                out["failures"].append(f"mutant does not compile ({rel}: {old[:40]!r}): {e}")
                continue
            out["mutants_applied"] += 1
            try:
                got, res = _violations(pid, d)
            except Exception as e:  # analysis error on a mutant counts as "noticed" but is reported
                out["details"].append({"mutant": f"{rel}: {old[:50]!r}", "result": f"analysis error: {str(e)[:100]}"})
                out["failures"].append(f"mutant made the analysis fail instead of reporting a violation ({rel}: {old[:40]!r}): {str(e)[:100]}")
                continue
            extra = got - base
            fired = bool(extra) and (rule is None or any(r == rule for r, _f, _d in extra))
            out["details"].append({"mutant": f"{rel}: {old[:60]!r} -> {new[:40]!r}", "expected_rule": rule,
                                   "new_violations": sorted(f"{r}|{f}" for r, f, _d in extra)[:4]})
            if fired:
                out["mutants_fired"] += 1
            else:
                out["failures"].append(f"must-fire mutant not reported ({rel}: {old[:50]!r} -> {new[:40]!r}; expected {rule}; got {sorted(r for r, _f, _d in extra)})")
            shutil.rmtree(d, ignore_errors=True)
        if muts and out["mutants_applied"] < max(1, len(muts) // 2):
            out["failures"].append(f"only {out['mutants_applied']} of {len(muts)} must-fire mutants still apply to the tree")
        for name, fn in (("reformat (ast.unparse of every module)", _twin_reformat), ("rename locals", _twin_rename), ("assert->raise, != -> not ==", _twin_raise),
                         ("rename every local variable", _twin_rename_all),
                         ("final expression in a nested helper, two-way branches negated", _twin_respell)):
            d = _copy_repo(repo)
            scratch.append(d)
            try:
                fn(d)
                got, res = _violations(pid, d)
                out["twins_run"] += 1
                undec_ok = True
                short = []
                for rule, floor in res.floors.items():
                    decided = sum(1 for i in res.instances if i.rule == rule and i.verdict in (report.OK, report.VIOLATION))
                    if decided < floor:
                        short.append(f"{rule}: {decided} < {floor}")
                if got == base and not short:
                    out["twins_silent"] += 1
                elif short:
                    out["failures"].append(f"must-stay-silent twin `{name}` makes instances undecided (floors not met: {short[:3]})")
                else:
                    out["failures"].append(f"must-stay-silent twin `{name}` changed the findings: +{sorted(got - base)[:3]} -{sorted(base - got)[:3]}")
            except Exception as e:
                out["failures"].append(f"twin `{name}` made the analysis fail: {type(e).__name__}: {str(e)[:150]}")
            shutil.rmtree(d, ignore_errors=True)
    finally:
        for d in scratch:
            shutil.rmtree(d, ignore_errors=True)
    return out
