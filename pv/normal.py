"""Spelling-independent form of the parsed tree (applied when a tree is loaded, in memory only; every pass preserves behaviour).

    1. pv/inline.py      calls to functions that do not exist on the reviewed tree are inlined (de-extraction);
    2. call_arguments    one spelling for the arguments of a few numpy functions that the repository itself spells both ways
                         (np.transpose(a, axes=p) ~ np.transpose(a, p); np.zeros(shape=s) ~ np.zeros(s); np.sum(a, 0) ~ np.sum(a, axis=0));
    3. copy_propagation  a read of a local that, at that point, is a plain copy of a parameter or another local (`idx = key` ... `idx`
                         before either is re-bound) reads the source instead, when the local is bound more than once (singly bound locals
                         are resolved by the engines themselves);
    4. pv/roles.py       locals get the names they have on the reviewed tree.

The reviewed tables are generated from the tree in this form, so the reviewed tree and any re-spelling of it are compared like with like.
"""
from __future__ import annotations

import ast
import copy
from typing import Dict, List, Optional, Set

FuncDef = (ast.FunctionDef, ast.AsyncFunctionDef)

# function -> (parameter names in order, number of leading parameters written positionally; the rest are written as keywords)
NP_SIGNATURES: Dict[str, tuple] = {
    "transpose": (("a", "axes"), 2),
    "reshape": (("a", "newshape", "order"), 2),
    "zeros": (("shape", "dtype", "order"), 1),
    "ones": (("shape", "dtype", "order"), 1),
    "empty": (("shape", "dtype", "order"), 1),
    "full": (("shape", "fill_value", "dtype", "order"), 2),
    "sum": (("a", "axis"), 1),
    "prod": (("a", "axis"), 1),
    "max": (("a", "axis"), 1),
    "min": (("a", "axis"), 1),
    "amax": (("a", "axis"), 1),
    "amin": (("a", "axis"), 1),
    "mean": (("a", "axis"), 1),
    "any": (("a", "axis"), 1),
    "all": (("a", "axis"), 1),
    "cumsum": (("a", "axis"), 1),
    "argmax": (("a", "axis"), 1),
    "argmin": (("a", "axis"), 1),
    "sort": (("a", "axis"), 1),
    "argsort": (("a", "axis"), 1),
    "squeeze": (("a", "axis"), 1),
    "concatenate": (("arrays", "axis"), 1),
    "stack": (("arrays", "axis"), 1),
    "expand_dims": (("a", "axis"), 1),
    "flip": (("m", "axis"), 1),
    "uniform": (("low", "high", "size"), 3),
}
ALIASES = {"reshape": {"shape": "newshape"}}


def _np_function(call: ast.Call) -> Optional[str]:
    f = call.func
    if not isinstance(f, ast.Attribute) or f.attr not in NP_SIGNATURES:
        return None
    v = f.value
    if isinstance(v, ast.Name) and v.id in ("np", "numpy"):
        return f.attr
    if f.attr == "uniform" and isinstance(v, ast.Attribute) and v.attr == "random" and isinstance(v.value, ast.Name) and v.value.id in ("np", "numpy"):
        return f.attr
    return None


def call_arguments(tree: ast.AST) -> int:
    done = 0
    for call in ast.walk(tree):
        if not isinstance(call, ast.Call):
            continue
        name = _np_function(call)
        if name is None or any(isinstance(a, ast.Starred) for a in call.args) or any(k.arg is None for k in call.keywords):
            continue
        params, npos = NP_SIGNATURES[name]
        if len(call.args) > len(params):
            continue
        bound: Dict[str, ast.AST] = {}
        for p, a in zip(params, call.args):
            bound[p] = a
        extra: List[ast.keyword] = []
        ok = True
        for k in call.keywords:
            kn = ALIASES.get(name, {}).get(k.arg, k.arg)
            if kn in params:
                if kn in bound:
                    ok = False
                bound[kn] = k.value
            else:
                extra.append(k)
        if not ok:
            continue
        # leading parameters positional as long as they are contiguous
        new_args: List[ast.AST] = []
        i = 0
        while i < npos and i < len(params) and params[i] in bound:
            new_args.append(bound[params[i]])
            i += 1
        new_kw = [ast.keyword(arg=p, value=bound[p]) for p in params[i:] if p in bound]
        if [ast.dump(a) for a in new_args] == [ast.dump(a) for a in call.args] and \
                [(k.arg, ast.dump(k.value)) for k in new_kw + extra] == [(k.arg, ast.dump(k.value)) for k in call.keywords]:
            continue
        call.args = new_args
        call.keywords = new_kw + extra
        done += 1
    return done


# ----------------------------------------------------------------------------------------------------------------- copy propagation
def _bound_names(node: ast.AST) -> Set[str]:
    """Names (re)bound anywhere inside node (nested scopes excluded, comprehension targets excluded)."""
    out: Set[str] = set()

    def tgt(t):
        if isinstance(t, ast.Name):
            out.add(t.id)
        elif isinstance(t, (ast.Tuple, ast.List)):
            for e in t.elts:
                tgt(e)
        elif isinstance(t, ast.Starred):
            tgt(t.value)

    def visit(n):
        if isinstance(n, ast.Assign):
            for t in n.targets:
                tgt(t)
        elif isinstance(n, (ast.AnnAssign, ast.AugAssign)):
            tgt(n.target)
        elif isinstance(n, (ast.For, ast.AsyncFor)):
            tgt(n.target)
        elif isinstance(n, (ast.With, ast.AsyncWith)):
            for it in n.items:
                if it.optional_vars is not None:
                    tgt(it.optional_vars)
        elif isinstance(n, ast.NamedExpr):
            tgt(n.target)
        elif isinstance(n, ast.ExceptHandler) and n.name:
            out.add(n.name)
        elif isinstance(n, ast.Delete):
            for t in n.targets:
                tgt(t)
        for c in ast.iter_child_nodes(n):
            if isinstance(c, FuncDef + (ast.Lambda, ast.ClassDef)):
                if not isinstance(c, ast.Lambda):
                    out.add(c.name)
                continue
            visit(c)
    visit(node)
    return out


def _mutated_in_place(node: ast.AST) -> Set[str]:
    """Names whose object is stored into (x[i] = .., x.attr = .., x += ..) inside node: the copy and its source are the same object, so
    this does not separate them; listed for completeness (not used to kill copies)."""
    return set()


class _Reads(ast.NodeTransformer):
    def __init__(self, copies: Dict[str, str]):
        self.copies = copies
        self.done = 0

    def visit_Name(self, n):
        if isinstance(n.ctx, ast.Load) and n.id in self.copies:
            self.done += 1
            return ast.copy_location(ast.Name(id=self.copies[n.id], ctx=ast.Load()), n)
        return n

    def visit_Lambda(self, n):
        return n

    def visit_FunctionDef(self, n):
        return n

    visit_AsyncFunctionDef = visit_FunctionDef


def copy_propagation(fn) -> int:
    """Within each statement list of fn: after `x = y` (both plain names, x bound more than once in fn, y a parameter or local), reads of x
    are reads of y until x or y is re-bound.  Only applied forward inside one block and into nested blocks that re-bind neither."""
    counts: Dict[str, int] = {}
    for n in ast.walk(fn):
        if isinstance(n, ast.Name) and isinstance(n.ctx, ast.Store):
            counts[n.id] = counts.get(n.id, 0) + 1
    a = fn.args
    params = {x.arg for x in a.posonlyargs + a.args + a.kwonlyargs + ([a.vararg] if a.vararg else []) + ([a.kwarg] if a.kwarg else [])}
    for p in params:
        counts[p] = counts.get(p, 0) + 1
    nested_reads: Set[str] = set()
    for n in ast.walk(fn):
        if n is not fn and isinstance(n, FuncDef + (ast.Lambda,)):
            for x in ast.walk(n):
                if isinstance(x, ast.Name):
                    nested_reads.add(x.id)
    total = 0

    def block(stmts: List[ast.stmt], copies: Dict[str, str]) -> None:
        nonlocal total
        copies = dict(copies)
        for st in stmts:
            rebound = _bound_names(st)
            if copies:
                live = {x: y for x, y in copies.items()}
                if isinstance(st, (ast.Assign, ast.AnnAssign, ast.AugAssign, ast.Expr, ast.Return, ast.Raise, ast.Assert, ast.Delete)):
                    # the value is evaluated before the targets are bound
                    r = _Reads(live)
                    if isinstance(st, ast.AugAssign):
                        st.value = r.visit(st.value)          # the target itself is read and written: leave it
                    elif isinstance(st, (ast.Assign, ast.AnnAssign)):
                        if st.value is not None:
                            st.value = r.visit(st.value)
                        tl = st.targets if isinstance(st, ast.Assign) else [st.target]
                        for t in tl:
                            if not isinstance(t, ast.Name):
                                for fld, val in ast.iter_fields(t):
                                    if isinstance(val, ast.AST) and fld != "ctx":
                                        setattr(t, fld, r.visit(val))
                    else:
                        r.visit(st)
                    total += r.done
                elif isinstance(st, ast.If):
                    r = _Reads(live)
                    st.test = r.visit(st.test)
                    total += r.done
                    block(st.body, live)
                    block(st.orelse, live)
                elif isinstance(st, (ast.For, ast.AsyncFor)):
                    r = _Reads(live)
                    st.iter = r.visit(st.iter)
                    total += r.done
                    inner = {x: y for x, y in live.items() if x not in rebound and y not in rebound}
                    block(st.body, inner)
                    block(st.orelse, inner)
                elif isinstance(st, ast.While):
                    inner = {x: y for x, y in live.items() if x not in rebound and y not in rebound}
                    if inner:
                        r = _Reads(inner)
                        st.test = r.visit(st.test)
                        total += r.done
                    block(st.body, inner)
                    block(st.orelse, inner)
                elif isinstance(st, (ast.With, ast.AsyncWith)):
                    r = _Reads(live)
                    for it in st.items:
                        it.context_expr = r.visit(it.context_expr)
                    total += r.done
                    block(st.body, {x: y for x, y in live.items()})
                elif isinstance(st, ast.Try):
                    inner = {x: y for x, y in live.items() if x not in rebound and y not in rebound}
                    block(st.body, inner)
                    for h in st.handlers:
                        block(h.body, inner)
                    block(st.orelse, inner)
                    block(st.finalbody, inner)
            else:
                for fld in ("body", "orelse", "finalbody"):
                    sub = getattr(st, fld, None)
                    if isinstance(sub, list) and sub and isinstance(sub[0], ast.stmt) and not isinstance(st, FuncDef + (ast.ClassDef,)):
                        block(sub, {})
                if isinstance(st, ast.Try):
                    for h in st.handlers:
                        block(h.body, {})
            # kill copies whose name or source is re-bound by this statement
            for x in list(copies):
                if x in rebound or copies[x] in rebound:
                    del copies[x]
            # a new copy
            if isinstance(st, ast.Assign) and len(st.targets) == 1 and isinstance(st.targets[0], ast.Name) and isinstance(st.value, ast.Name):
                x, y = st.targets[0].id, st.value.id
                if x != y and counts.get(x, 0) >= 2 and x not in params and x not in nested_reads and y not in nested_reads \
                        and (y in params or counts.get(y, 0) >= 1):
                    copies[x] = y

    block(fn.body, {})
    return total


# ----------------------------------------------------------------------------------------------------------------- statement shapes
def _blocks(fn):
    """Every statement list of fn (nested scopes excluded), innermost last."""
    out = []

    def visit(node):
        for fld in ("body", "orelse", "finalbody"):
            lst = getattr(node, fld, None)
            if isinstance(lst, list) and lst and isinstance(lst[0], ast.stmt):
                out.append(lst)
                for st in lst:
                    if not isinstance(st, FuncDef + (ast.ClassDef,)):
                        visit(st)
        if isinstance(node, ast.Try):
            for h in node.handlers:
                out.append(h.body)
                for st in h.body:
                    if not isinstance(st, FuncDef + (ast.ClassDef,)):
                        visit(st)
    visit(fn)
    return out


def conditional_assignments(fn) -> int:
    """x = A if c else B   ->   if c: x = A  else: x = B     (one statement shape for a two-way definition)"""
    done = 0

    def expand(target: ast.Name, value: ast.AST, loc) -> List[ast.stmt]:
        nonlocal done
        if isinstance(value, ast.IfExp):
            done += 1
            node = ast.If(test=value.test, body=expand(target, value.body, loc), orelse=expand(target, value.orelse, loc))
            return [ast.copy_location(node, loc)]
        return [ast.copy_location(ast.Assign(targets=[ast.Name(id=target.id, ctx=ast.Store())], value=value), loc)]

    for lst in _blocks(fn):
        i = 0
        while i < len(lst):
            st = lst[i]
            if isinstance(st, ast.Assign) and len(st.targets) == 1 and isinstance(st.targets[0], ast.Name) and isinstance(st.value, ast.IfExp):
                new = expand(st.targets[0], st.value, st)
                for n in new:
                    ast.fix_missing_locations(n)
                lst[i:i + 1] = new
            elif isinstance(st, ast.Return) and isinstance(st.value, ast.IfExp):
                # return A if c else B   ->   if c: return A  else: return B
                def ret(v, loc):
                    nonlocal done
                    if isinstance(v, ast.IfExp):
                        done += 1
                        return [ast.copy_location(ast.If(test=v.test, body=ret(v.body, loc), orelse=ret(v.orelse, loc)), loc)]
                    return [ast.copy_location(ast.Return(value=v), loc)]
                new = ret(st.value, st)
                for n in new:
                    ast.fix_missing_locations(n)
                lst[i:i + 1] = new
            i += 1
    return done


def tuple_assignments(fn) -> int:
    """a, b = (x, y)   ->   a = x; b = y     when neither x nor y reads a or b (so the order of the two bindings cannot matter);
    a target named `_` whose value is a plain name is dropped."""
    done = 0
    for lst in _blocks(fn):
        i = 0
        while i < len(lst):
            st = lst[i]
            # first, *rest = X   ->   first = X[0]; rest = X[1:]        (*init, last = X likewise)
            if isinstance(st, ast.Assign) and len(st.targets) == 1 and isinstance(st.targets[0], ast.Tuple) \
                    and not isinstance(st.value, (ast.Name, ast.Tuple, ast.List)) \
                    and sum(isinstance(t, ast.Starred) for t in st.targets[0].elts) == 1 \
                    and all(isinstance(t, ast.Name) or (isinstance(t, ast.Starred) and isinstance(t.value, ast.Name)) for t in st.targets[0].elts):
                # the unpacked value gets a name first:  *init, last = f()  ->  seq = f(); *init, last = seq
                used = {x.id for x in ast.walk(fn) if isinstance(x, ast.Name)} | {a.arg for a in ast.walk(fn) if isinstance(a, ast.arg)}
                tmp = "unpacked"
                k_ = 1
                while tmp in used:
                    tmp = f"unpacked_{k_}"
                    k_ += 1
                first = ast.copy_location(ast.Assign(targets=[ast.Name(id=tmp, ctx=ast.Store())], value=st.value), st)
                st.value = ast.copy_location(ast.Name(id=tmp, ctx=ast.Load()), st)
                ast.fix_missing_locations(first)
                lst.insert(i, first)
                i += 1
                done += 1
                continue
            if isinstance(st, ast.Assign) and len(st.targets) == 1 and isinstance(st.targets[0], ast.Tuple) and isinstance(st.value, ast.Name) \
                    and sum(isinstance(t, ast.Starred) for t in st.targets[0].elts) == 1 \
                    and all(isinstance(t, ast.Name) or (isinstance(t, ast.Starred) and isinstance(t.value, ast.Name)) for t in st.targets[0].elts) \
                    and st.value.id not in {(t.value.id if isinstance(t, ast.Starred) else t.id) for t in st.targets[0].elts}:
                elts = st.targets[0].elts
                k = next(i_ for i_, t in enumerate(elts) if isinstance(t, ast.Starred))
                after = len(elts) - k - 1
                new = []
                for j, t in enumerate(elts):
                    if isinstance(t, ast.Starred):
                        sl = ast.Slice(lower=ast.Constant(value=k) if k else None, upper=ast.UnaryOp(op=ast.USub(), operand=ast.Constant(value=after)) if after else None, step=None)
                        name = t.value.id
                    else:
                        idx = j if j < k else j - len(elts)
                        sl = ast.Constant(value=idx) if idx >= 0 else ast.UnaryOp(op=ast.USub(), operand=ast.Constant(value=-idx))
                        name = t.id
                    val = ast.Subscript(value=ast.Name(id=st.value.id, ctx=ast.Load()), slice=sl, ctx=ast.Load())
                    new.append(ast.copy_location(ast.Assign(targets=[ast.Name(id=name, ctx=ast.Store())], value=val), st))
                for n in new:
                    ast.fix_missing_locations(n)
                lst[i:i + 1] = new
                i += len(new)
                done += 1
                continue
            if isinstance(st, ast.Assign) and len(st.targets) == 1 and isinstance(st.targets[0], ast.Tuple) and isinstance(st.value, ast.Tuple) \
                    and len(st.targets[0].elts) == len(st.value.elts) and all(isinstance(t, ast.Name) for t in st.targets[0].elts) \
                    and not any(isinstance(v, ast.Starred) for v in st.value.elts):
                names = {t.id for t in st.targets[0].elts}
                reads = {x.id for v in st.value.elts for x in ast.walk(v) if isinstance(x, ast.Name)}
                if not (names & reads) and len(names) == len(st.targets[0].elts):
                    new = []
                    for t, v in zip(st.targets[0].elts, st.value.elts):
                        if t.id == "_" and isinstance(v, (ast.Name, ast.Constant)):
                            continue
                        if isinstance(v, ast.Name) and v.id == t.id:
                            continue
                        new.append(ast.copy_location(ast.Assign(targets=[ast.Name(id=t.id, ctx=ast.Store())], value=v), st))
                    if not new:
                        new = [ast.copy_location(ast.Pass(), st)]
                    for n in new:
                        ast.fix_missing_locations(n)
                    lst[i:i + 1] = new
                    i += len(new)
                    done += 1
                    continue
            i += 1
    return done


def literal_loops(fn) -> int:
    """for a, b in zip((x1, x2), (y1, y2)): body   ->   body[a:=x1, b:=y1]; body[a:=x2, b:=y2]      (also `for a in (x1, x2)`)
    for at most four literal elements, when the body neither re-binds the loop variables nor breaks / continues and the variables are
    not read after the loop."""
    done = 0

    def elements(it):
        if isinstance(it, (ast.Tuple, ast.List)) and 1 <= len(it.elts) <= 4 and not any(isinstance(x, ast.Starred) for x in it.elts):
            return [[x] for x in it.elts]
        if isinstance(it, ast.Call) and isinstance(it.func, ast.Name) and it.func.id == "zip" and not it.keywords and it.args \
                and all(isinstance(a, (ast.Tuple, ast.List)) and not any(isinstance(x, ast.Starred) for x in a.elts) for a in it.args) \
                and len({len(a.elts) for a in it.args}) == 1 and 1 <= len(it.args[0].elts) <= 4:
            return [[a.elts[k] for a in it.args] for k in range(len(it.args[0].elts))]
        return None

    for lst in _blocks(fn):
        i = 0
        while i < len(lst):
            st = lst[i]
            if isinstance(st, ast.For) and not st.orelse:
                rows = elements(st.iter)
                tg = st.target
                names = [tg] if isinstance(tg, ast.Name) else (list(tg.elts) if isinstance(tg, (ast.Tuple, ast.List)) else None)
                if rows is not None and names is not None and all(isinstance(n, ast.Name) for n in names) and all(len(r) == len(names) for r in rows) \
                        and (isinstance(tg, ast.Name) or isinstance(st.iter, ast.Call)):
                    ids = [n.id for n in names]
                    body_nodes = [x for b in st.body for x in ast.walk(b)]
                    rebinding = any(isinstance(x, ast.Name) and x.id in ids and isinstance(x.ctx, (ast.Store, ast.Del)) for x in body_nodes)
                    jumps = any(isinstance(x, (ast.Break, ast.Continue)) for x in body_nodes)
                    nested_scope = any(isinstance(x, FuncDef + (ast.Lambda,)) for x in body_nodes)
                    later = any(isinstance(x, ast.Name) and x.id in ids for rest in lst[i + 1:] for x in ast.walk(rest))
                    simple = all(isinstance(e, (ast.Name, ast.Attribute, ast.Constant, ast.Subscript)) for r in rows for e in r)
                    if not (rebinding or jumps or nested_scope or later) and simple:
                        new: List[ast.stmt] = []
                        for r in rows:
                            sub = dict(zip(ids, r))

                            class S(ast.NodeTransformer):
                                def visit_Name(self, n):
                                    if n.id in sub and isinstance(n.ctx, ast.Load):
                                        return ast.copy_location(copy.deepcopy(sub[n.id]), n)
                                    return n
                            for b in st.body:
                                new.append(S().visit(copy.deepcopy(b)))
                        for n in new:
                            ast.fix_missing_locations(n)
                        lst[i:i + 1] = new
                        done += 1
                        continue
            i += 1
    return done


def negated_branches(fn) -> int:
    """if not c: A else: B   ->   if c: B else: A      (one polarity for two-way branches; elif chains are left alone)"""
    done = 0
    for n in ast.walk(fn):
        if isinstance(n, ast.If) and n.orelse and isinstance(n.test, ast.UnaryOp) and isinstance(n.test.op, ast.Not) \
                and not (len(n.orelse) == 1 and isinstance(n.orelse[0], ast.If)) and not (len(n.body) == 1 and isinstance(n.body[0], ast.If)):
            n.test = n.test.operand
            n.body, n.orelse = n.orelse, n.body
            done += 1
    return done


def annotated_assignments(fn) -> int:
    """x: T = v  ->  x = v     inside function bodies (an annotation on a local changes nothing at run time); a bare `x: T` is dropped."""
    done = 0
    for lst in _blocks(fn):
        i = 0
        while i < len(lst):
            st = lst[i]
            if isinstance(st, ast.AnnAssign) and isinstance(st.target, ast.Name) and st.simple:
                if st.value is None:
                    if len(lst) > 1:
                        del lst[i]
                        done += 1
                        continue
                else:
                    lst[i] = ast.copy_location(ast.Assign(targets=[ast.Name(id=st.target.id, ctx=ast.Store())], value=st.value), st)
                    ast.fix_missing_locations(lst[i])
                    done += 1
            i += 1
    return done


def _reads(node: ast.AST, name: str) -> bool:
    return any(isinstance(x, ast.Name) and x.id == name for x in ast.walk(node))


def accumulate_loops(fn) -> int:
    """x = [] ... for t in it: [if c:] x.append(e)    ->    x = [e for t in it if c]      (nothing in between mentions x)"""
    done = 0
    for lst in _blocks(fn):
        i = 0
        while i < len(lst):
            st = lst[i]
            if isinstance(st, (ast.Assign, ast.AnnAssign)) and isinstance(getattr(st, "value", None), ast.List) and not st.value.elts:
                tgt = st.targets[0] if isinstance(st, ast.Assign) and len(st.targets) == 1 else (st.target if isinstance(st, ast.AnnAssign) else None)
                if isinstance(tgt, ast.Name):
                    x = tgt.id
                    j = i + 1
                    while j < len(lst) and not _reads(lst[j], x):
                        j += 1
                    if j < len(lst) and isinstance(lst[j], ast.For) and not lst[j].orelse and len(lst[j].body) == 1 \
                            and not _reads(lst[j].iter, x) and not _reads(lst[j].target, x):
                        loop = lst[j]
                        inner = loop.body[0]
                        conds = []
                        while isinstance(inner, ast.If) and not inner.orelse and len(inner.body) == 1:
                            conds.append(inner.test)
                            inner = inner.body[0]
                        if isinstance(inner, ast.Expr) and isinstance(inner.value, ast.Call) and isinstance(inner.value.func, ast.Attribute) \
                                and inner.value.func.attr == "append" and isinstance(inner.value.func.value, ast.Name) \
                                and inner.value.func.value.id == x and len(inner.value.args) == 1 and not inner.value.keywords \
                                and not _reads(inner.value.args[0], x) and not any(_reads(c, x) for c in conds):
                            # the loop variable must not be read after the loop (a comprehension does not leak it)
                            tnames = {n.id for n in ast.walk(loop.target) if isinstance(n, ast.Name)}
                            later = any(isinstance(n, ast.Name) and n.id in tnames and isinstance(n.ctx, ast.Load)
                                        for rest in lst[j + 1:] for n in ast.walk(rest))
                            if not later:
                                tcopy = copy.deepcopy(loop.target)
                                for n in ast.walk(tcopy):
                                    if isinstance(n, ast.Name):
                                        n.ctx = ast.Store()
                                comp = ast.ListComp(elt=inner.value.args[0],
                                                    generators=[ast.comprehension(target=tcopy, iter=loop.iter, ifs=conds, is_async=0)])
                                new = ast.Assign(targets=[ast.Name(id=x, ctx=ast.Store())], value=comp)
                                ast.copy_location(new, loop)
                                ast.fix_missing_locations(new)
                                lst[j] = new
                                del lst[i]
                                done += 1
                                continue
            i += 1
    return done


def slice_bounds(tree: ast.AST) -> int:
    """x[0:n] -> x[:n],  x[a:b:1] -> x[a:b]     (the explicit defaults of a slice)"""
    done = 0
    for n in ast.walk(tree):
        if isinstance(n, ast.Slice):
            if isinstance(n.lower, ast.Constant) and n.lower.value == 0 and n.lower.value is not False and (n.step is None or (isinstance(n.step, ast.Constant) and n.step.value == 1)):
                n.lower = None
                done += 1
            if isinstance(n.step, ast.Constant) and n.step.value == 1 and n.step.value is not True:
                n.step = None
                done += 1
    return done


def boolean_ints(tree: ast.AST) -> int:
    """int(not c) -> (0 if c else 1);  int(<comparison>) -> (1 if <comparison> else 0)      (a truth value used as an index)"""
    done = 0

    class T(ast.NodeTransformer):
        def visit_Call(self, n):
            nonlocal done
            self.generic_visit(n)
            if isinstance(n.func, ast.Name) and n.func.id == "int" and len(n.args) == 1 and not n.keywords:
                a = n.args[0]
                if isinstance(a, ast.UnaryOp) and isinstance(a.op, ast.Not):
                    done += 1
                    return ast.copy_location(ast.IfExp(test=a.operand, body=ast.Constant(value=0), orelse=ast.Constant(value=1)), n)
                if isinstance(a, (ast.Compare, ast.BoolOp)):
                    done += 1
                    return ast.copy_location(ast.IfExp(test=a, body=ast.Constant(value=1), orelse=ast.Constant(value=0)), n)
            return n
    T().visit(tree)
    ast.fix_missing_locations(tree)
    return done


def import_spellings(tree: ast.Module) -> int:
    """One spelling for imported names the repository imports one way only:
         numpy            -> np.<name>      (import numpy / import numpy as <x> / from numpy import <name> [as <y>])
         math, operator, itertools -> bare <name>   (import math; math.prod  ->  prod)
    Names re-bound inside a function (parameters, assignments) are left alone there."""
    done = 0
    np_aliases: Set[str] = set()          # module aliases of numpy other than np
    from_numpy: Dict[str, str] = {}       # local name -> numpy attribute
    bare_modules: Dict[str, str] = {}     # alias -> module whose members the repository imports by name (math, operator, itertools, numbers,
    #                                       pyttb.pyttb_utils, numpy_groupies)
    bare_rename: Dict[tuple, str] = {("numpy_groupies", "aggregate"): "accumarray"}
    attr_style: Dict[str, tuple] = {}     # local name -> (module, attribute) for members the repository reaches through the module (warnings.warn)
    BARE = ("math", "operator", "itertools", "numbers", "pyttb.pyttb_utils", "numpy_groupies")
    ATTR = ("warnings", "logging")
    for node in tree.body:
        if isinstance(node, ast.Import):
            for al in node.names:
                if al.name == "numpy" and (al.asname or "numpy") != "np":
                    np_aliases.add(al.asname or "numpy")
                if al.name in BARE and (al.asname or "." not in al.name):
                    bare_modules[al.asname or al.name] = al.name
        elif isinstance(node, ast.ImportFrom) and node.level == 0:
            if node.module == "numpy":
                for al in node.names:
                    if al.name != "*":
                        from_numpy[al.asname or al.name] = al.name
            elif node.module == "pyttb":
                for al in node.names:
                    if al.name == "pyttb_utils":
                        bare_modules[al.asname or al.name] = "pyttb.pyttb_utils"
            elif node.module in ATTR:
                for al in node.names:
                    if al.name != "*":
                        attr_style[al.asname or al.name] = (node.module, al.name)
            elif node.module == "numpy_groupies":
                for al in node.names:
                    if al.name == "aggregate" and (al.asname or al.name) != "accumarray":
                        attr_style[al.asname or al.name] = ("", "accumarray")
    if not (np_aliases or from_numpy or bare_modules or attr_style):
        return 0

    def bound_in(fn) -> Set[str]:
        out = {a.arg for a in fn.args.posonlyargs + fn.args.args + fn.args.kwonlyargs}
        if fn.args.vararg:
            out.add(fn.args.vararg.arg)
        if fn.args.kwarg:
            out.add(fn.args.kwarg.arg)
        for x in ast.walk(fn):
            if isinstance(x, ast.Name) and isinstance(x.ctx, (ast.Store, ast.Del)):
                out.add(x.id)
        return out

    class T(ast.NodeTransformer):
        def __init__(self):
            self.shadow: List[Set[str]] = [set()]

        def _scope(self, node):
            self.shadow.append(self.shadow[-1] | bound_in(node))
            try:
                return self.generic_visit(node)
            finally:
                self.shadow.pop()

        visit_FunctionDef = visit_AsyncFunctionDef = _scope

        def visit_Lambda(self, node):
            self.shadow.append(self.shadow[-1] | {a.arg for a in node.args.args})
            try:
                return self.generic_visit(node)
            finally:
                self.shadow.pop()

        def visit_Attribute(self, node):
            nonlocal done
            self.generic_visit(node)
            v = node.value
            if isinstance(v, ast.Name) and v.id not in self.shadow[-1]:
                if v.id in np_aliases:
                    done += 1
                    node.value = ast.copy_location(ast.Name(id="np", ctx=ast.Load()), v)
                elif v.id in bare_modules and isinstance(node.ctx, ast.Load) and node.attr not in self.shadow[-1]:
                    done += 1
                    name = bare_rename.get((bare_modules[v.id], node.attr), node.attr)
                    used_bare.setdefault(bare_modules[v.id], set()).add((node.attr, name))
                    return ast.copy_location(ast.Name(id=name, ctx=ast.Load()), node)
            return node

        def visit_Name(self, node):
            nonlocal done
            if isinstance(node.ctx, ast.Load) and node.id in from_numpy and node.id not in self.shadow[-1]:
                done += 1
                return ast.copy_location(ast.Attribute(value=ast.Name(id="np", ctx=ast.Load()), attr=from_numpy[node.id], ctx=ast.Load()), node)
            if isinstance(node.ctx, ast.Load) and node.id in attr_style and node.id not in self.shadow[-1]:
                done += 1
                mod, attr = attr_style[node.id]
                if not mod:
                    return ast.copy_location(ast.Name(id=attr, ctx=ast.Load()), node)
                used_attr.add(mod)
                return ast.copy_location(ast.Attribute(value=ast.Name(id=mod, ctx=ast.Load()), attr=attr, ctx=ast.Load()), node)
            return node

    used_bare: Dict[str, Set[tuple]] = {}
    used_attr: Set[str] = set()
    keep = []
    for node in tree.body:
        keep.append(node if isinstance(node, (ast.Import, ast.ImportFrom)) else T().visit(node))
    tree.body = keep
    if done:
        # make the canonical names importable for the engines that resolve through the module's imports
        extra: List[ast.stmt] = []
        if np_aliases or from_numpy:
            extra.append(ast.Import(names=[ast.alias(name="numpy", asname="np")]))
        for mod, pairs in sorted(used_bare.items()):
            extra.append(ast.ImportFrom(module=mod, names=[ast.alias(name=a, asname=(b if b != a else None)) for a, b in sorted(pairs)], level=0))
        for mod in sorted(used_attr):
            extra.append(ast.Import(names=[ast.alias(name=mod, asname=None)]))
        if any(not m for m, _a in attr_style.values()):
            extra.append(ast.ImportFrom(module="numpy_groupies", names=[ast.alias(name="aggregate", asname="accumarray")], level=0))
        pos = 0
        while pos < len(tree.body) and isinstance(tree.body[pos], ast.Expr) and isinstance(tree.body[pos].value, ast.Constant):
            pos += 1
        while pos < len(tree.body) and isinstance(tree.body[pos], ast.ImportFrom) and tree.body[pos].module == "__future__":
            pos += 1
        for e in extra:
            ast.fix_missing_locations(e)
        tree.body[pos:pos] = extra
        ast.fix_missing_locations(tree)
    return done


def apply(tree: ast.Module) -> int:
    done = import_spellings(tree)
    done += call_arguments(tree)
    done += boolean_ints(tree)
    done += slice_bounds(tree)
    for node in ast.walk(tree):
        if isinstance(node, FuncDef):
            done += annotated_assignments(node)
            done += literal_loops(node)
            done += tuple_assignments(node)
            done += negated_branches(node)
            done += conditional_assignments(node)
            done += accumulate_loops(node)
            done += copy_propagation(node)
    return done
