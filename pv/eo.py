"""E3: enumeration order (F vs C), paired selectors, inverse permutations, Khatri-Rao convention,
representation reads.  All facts are read from the AST; nothing is executed."""
from __future__ import annotations

import ast
import copy
from dataclasses import dataclass
from typing import Dict, List, Optional, Set, Tuple

from .model import Program, FuncInfo, dotted, kwarg, const, NOCONST, walk_no_nested, TENSOR_CLASSES
from .guards import Canon

RESHAPE_FAMILY = {"reshape", "ravel", "flatten", "unravel_index", "ravel_multi_index"}
IDX_HELPERS = {"tt_ind2sub", "tt_sub2ind"}


def class_order(prog: Program, cls: str) -> Optional[str]:
    ci = prog.tensor_class(cls)
    if ci is None or "order" not in ci.methods:
        return None
    vals = set()
    for n in ast.walk(ci.methods["order"].node):
        if isinstance(n, ast.Return):
            vals.add(const(n.value) if n.value is not None else None)
    return vals.pop() if len(vals) == 1 else None


def order_value(prog: Program, fi: FuncInfo, e: Optional[ast.expr]) -> Optional[str]:
    """'F' / 'C' / None(unknown) for an order expression inside fi."""
    if e is None:
        return None
    c = const(e)
    if c in ("F", "C"):
        return c
    if c in ("K", "A"):
        return "MEM"
    if c is NOCONST and isinstance(e, ast.Attribute) and e.attr == "order":
        # self.order / other.order / X.order: the classes' order property
        if isinstance(e.value, ast.Name) and fi.cls and fi.params() and e.value.id == fi.params()[0] and fi.cls in TENSOR_CLASSES:
            return class_order(prog, fi.cls)
        vals = {class_order(prog, k) for k in TENSOR_CLASSES}
        return vals.pop() if len(vals) == 1 else None
    if isinstance(e, ast.Name):
        d = fi.param_defaults().get(e.id)
        if d is not None and e.id in fi.params():
            return const(d) if const(d) in ("F", "C") else None
    return None


@dataclass
class Site:
    fi: FuncInfo
    call: ast.Call
    base: str
    order_expr: Optional[ast.expr]
    tag: Optional[str]  # F / C / None
    explicit: bool
    key: str  # canonical call text without the order argument
    numpy_like: bool


def _order_arg(call: ast.Call, base: str) -> Optional[ast.expr]:
    o = kwarg(call, "order")
    if o is not None:
        return o
    is_method = isinstance(call.func, ast.Attribute) and not (dotted(call.func) or "").startswith(("np.", "numpy."))
    if base in ("ravel", "flatten"):
        args = call.args if is_method else call.args[1:]
        if args and const(args[0]) in ("F", "C", "A", "K"):
            return args[0]
        if args and isinstance(args[0], ast.Attribute) and args[0].attr == "order":
            return args[0]
    if base == "reshape" and not is_method and len(call.args) >= 3:
        return call.args[2]
    if base in IDX_HELPERS and len(call.args) >= 3:
        return call.args[2]
    return None


def sites(prog: Program) -> List[Site]:
    out = []
    for q, fi in sorted(prog.functions.items()):
        if fi.parent:
            continue
        canon = Canon(fi.node)
        for c in walk_no_nested(fi.node):
            if not isinstance(c, ast.Call):
                continue
            nm = dotted(c.func) or ""
            base = nm.split(".")[-1] if nm else (c.func.attr if isinstance(c.func, ast.Attribute) else "")
            if base not in RESHAPE_FAMILY | IDX_HELPERS:
                continue
            o = _order_arg(c, base)
            stripped = copy.deepcopy(c)
            stripped.keywords = [k for k in stripped.keywords if k.arg != "order"]
            if o is not None and o in c.args:
                stripped.args = [a for a, orig in zip(stripped.args, c.args) if orig is not o]
            default = "F" if base in IDX_HELPERS else "C"
            tag = order_value(prog, fi, o) if o is not None else default
            numpy_like = base in RESHAPE_FAMILY
            out.append(Site(fi, c, base, o, tag, o is not None, canon.text(stripped), numpy_like))
    return out


# ------------------------------------------------------------------ EO-2: pairing of enumerations
class Pairing:
    """Propagates listing-order tags through one function and reports element-wise pairings."""

    def __init__(self, prog: Program, fi: FuncInfo):
        self.prog = prog
        self.fi = fi
        self.env: Dict[str, Optional[str]] = {}
        self.tensor_data: Set[str] = set()
        self.pairs: List[Tuple[str, str, str, ast.AST]] = []  # (tagA, tagB, text, node)
        self.canon = Canon(fi.node)
        self._scan_data_locals()
        self._walk(fi.node.body)

    def _scan_data_locals(self):
        for n in walk_no_nested(self.fi.node):
            if isinstance(n, ast.Assign) and len(n.targets) == 1 and isinstance(n.targets[0], ast.Name):
                if self._is_tensor_data(n.value, shallow=True):
                    self.tensor_data.add(n.targets[0].id)

    def _is_tensor_data(self, e: ast.expr, shallow: bool = False) -> bool:
        if isinstance(e, ast.Attribute) and e.attr == "data":
            return True
        if isinstance(e, ast.Name) and e.id in self.tensor_data:
            return True
        if isinstance(e, ast.Call) and isinstance(e.func, ast.Attribute) and e.func.attr in ("copy", "astype") :
            return self._is_tensor_data(e.func.value)
        return False

    def tag(self, e: ast.expr) -> Optional[str]:
        if isinstance(e, ast.Name):
            return self.env.get(e.id)
        if isinstance(e, ast.Call):
            nm = dotted(e.func) or ""
            base = nm.split(".")[-1] if nm else (e.func.attr if isinstance(e.func, ast.Attribute) else "")
            is_method = isinstance(e.func, ast.Attribute) and not nm.startswith(("np.", "numpy."))
            if base in ("ravel", "flatten") or (base == "reshape" and self._to_1d(e, is_method)):
                src = e.func.value if is_method else (e.args[0] if e.args else None)
                if src is not None and self._is_tensor_data(src):
                    o = _order_arg(e, base)
                    return order_value(self.prog, self.fi, o) if o is not None else "C"
                return self.tag(src) if src is not None else None
            if base == "tt_ind2sub" and len(e.args) >= 2:
                o = _order_arg(e, base)
                conv = order_value(self.prog, self.fi, o) if o is not None else "F"
                a = e.args[1]
                if isinstance(a, ast.Call) and (dotted(a.func) or "").split(".")[-1] == "arange":
                    return conv
                return self.tag(a)
            if base == "tt_sub2ind" and len(e.args) >= 2:
                return self.tag(e.args[1])
            if base in ("sort", "copy", "array", "asarray", "astype", "abs", "transpose") and (e.args or is_method):
                return self.tag(e.func.value if is_method else e.args[0])
            if base == "accumarray" and len(e.args) >= 2:
                a, b = self.tag(e.args[0]), self.tag(e.args[1])
                if a and b:
                    self.pairs.append((a, b, f"accumarray({ast.unparse(e.args[0])}, {ast.unparse(e.args[1])})", e))
                return None
            if base in ("allclose", "isclose", "array_equal", "array_equiv") and len(e.args) >= 2:
                a, b = self.tag(e.args[0]), self.tag(e.args[1])
                if a and b:
                    self.pairs.append((a, b, f"{base}({self.canon.text(e.args[0])}, {self.canon.text(e.args[1])})", e))
                return None
            if base in ("all", "any", "max", "min", "sum") and e.args:
                for a in e.args:
                    self.tag(a)
                return None
            for a in e.args:
                self.tag(a)
            return None
        if isinstance(e, ast.Subscript):
            sl = e.slice
            # D[tuple(S.transpose())]  /  D[tuple(S.T)]
            if isinstance(sl, ast.Call) and isinstance(sl.func, ast.Name) and sl.func.id == "tuple" and sl.args:
                inner = sl.args[0]
                if isinstance(inner, ast.Call) and isinstance(inner.func, ast.Attribute) and inner.func.attr == "transpose":
                    return self.tag(inner.func.value)
                if isinstance(inner, ast.Attribute) and inner.attr == "T":
                    return self.tag(inner.value)
                return self.tag(inner)
            base_t = self.tag(e.value)
            if isinstance(sl, ast.Name):
                t = self.tag(sl)
                return t or None
            if isinstance(sl, ast.Tuple) and sl.elts and isinstance(sl.elts[0], ast.Slice):
                return base_t  # column selection keeps the row listing
            return None
        if isinstance(e, (ast.Compare, ast.BinOp)):
            parts = [e.left] + (list(e.comparators) if isinstance(e, ast.Compare) else [e.right])
            tags = [(self.tag(p), p) for p in parts]
            known = [(t, p) for t, p in tags if t]
            if len(known) >= 2:
                self.pairs.append((known[0][0], known[1][0], self.canon.text(e), e))
            return known[0][0] if known else None
        if isinstance(e, ast.UnaryOp):
            return self.tag(e.operand)
        if isinstance(e, ast.Attribute) and e.attr == "T":
            return self.tag(e.value)
        return None

    def _to_1d(self, e: ast.Call, is_method: bool) -> bool:
        args = e.args if is_method else e.args[1:]
        if kwarg(e, "newshape") is not None:
            args = [kwarg(e, "newshape")]
        if len(args) != 1:
            return False
        a = args[0]
        if isinstance(a, (ast.Tuple, ast.List)):
            return len(a.elts) == 1
        if const(a) == -1:
            return True
        # a scalar expression (prod(...), x.size, np.prod(sz)) as the whole shape: 1-D target
        if isinstance(a, ast.Call) and (dotted(a.func) or "").split(".")[-1] in ("prod", "len"):
            return True
        if isinstance(a, ast.Attribute) and a.attr == "size":
            return True
        return False

    def _walk(self, body):
        for st in body:
            if isinstance(st, (ast.FunctionDef, ast.ClassDef)):
                continue
            if isinstance(st, ast.Assign):
                t = self.tag(st.value)
                # reshape of a listing back to N-D: the listing order must equal the reshape order
                self._reshape_of_listing(st.value)
                for tg in st.targets:
                    if isinstance(tg, ast.Name):
                        self.env[tg.id] = t
                        if self._is_tensor_data(st.value):
                            self.tensor_data.add(tg.id)
                    elif isinstance(tg, ast.Subscript) and isinstance(tg.value, ast.Name):
                        vt = t
                        bt = self.env.get(tg.value.id)
                        if isinstance(tg.slice, ast.Name) and self.env.get(tg.slice.id) and vt:
                            self.pairs.append((self.env[tg.slice.id], vt, f"{ast.unparse(tg)} = {ast.unparse(st.value)[:60]}", st))
                continue
            if isinstance(st, ast.Return) and st.value is not None:
                self.tag(st.value)
                self._reshape_of_listing(st.value)
                continue
            if isinstance(st, ast.Expr):
                self.tag(st.value)
                continue
            if isinstance(st, ast.If):
                self.tag(st.test)
                self._walk(st.body)
                self._walk(st.orelse)
                continue
            if isinstance(st, (ast.For, ast.While)):
                self._walk(st.body)
                self._walk(st.orelse)
                continue
            if isinstance(st, ast.With):
                self._walk(st.body)
                continue
            if isinstance(st, ast.Try):
                self._walk(st.body + st.orelse + st.finalbody)
                continue

    def _reshape_of_listing(self, e: ast.expr) -> None:
        for c in ast.walk(e):
            if isinstance(c, ast.Call):
                nm = dotted(c.func) or ""
                base = nm.split(".")[-1] if nm else (c.func.attr if isinstance(c.func, ast.Attribute) else "")
                if base != "reshape":
                    continue
                is_method = isinstance(c.func, ast.Attribute) and not nm.startswith(("np.", "numpy."))
                if self._to_1d(c, is_method):
                    continue
                src = c.func.value if is_method else (c.args[0] if c.args else None)
                st = self.tag(src) if src is not None else None
                if st:
                    o = _order_arg(c, "reshape")
                    ot = order_value(self.prog, self.fi, o) if o is not None else "C"
                    if ot:
                        self.pairs.append((st, ot, f"reshape of the listing {ast.unparse(src)} back to N-D", c))


# ------------------------------------------------------------------ PS: paired selectors
def _selector_list(expr: ast.expr, want: str) -> List[Optional[str]]:
    """Selectors of the (possibly concatenated) parts of expr: want='shape' -> X[sel]; want='subs' -> X[:, sel]."""
    def unwrap(e):
        while isinstance(e, ast.Call) and (dotted(e.func) or "").split(".")[-1] in ("tuple", "array", "list", "asarray") and e.args:
            e = e.args[0]
        return e

    e = unwrap(expr)
    parts = [e]
    if isinstance(e, ast.Call) and (dotted(e.func) or "").split(".")[-1] in ("concatenate", "hstack", "vstack") and e.args \
            and isinstance(e.args[0], (ast.Tuple, ast.List)):
        parts = [unwrap(x) for x in e.args[0].elts]
    out: List[Optional[str]] = []
    for part in parts:
        if isinstance(part, ast.IfExp):
            # a two-way definition (selected when there is something stored, untouched when empty): the selector of the arm that selects
            arms = {s_ for arm in (part.body, part.orelse) for s_ in _selector_list(arm, want) if s_}
            out.append(next(iter(arms)) if len(arms) == 1 else None)
            continue
        sel = None
        n = part
        # peel trailing [:, None] etc.
        while isinstance(n, ast.Subscript):
            vt = ast.unparse(n.value)
            sl = n.slice
            if want == "shape" and "shape" in vt and "subs" not in vt and not isinstance(sl, (ast.Slice, ast.Constant, ast.Tuple)):
                sel = ast.unparse(sl)
                break
            if want == "subs" and "subs" in vt and isinstance(sl, ast.Tuple) and len(sl.elts) == 2 and isinstance(sl.elts[0], ast.Slice) \
                    and sl.elts[0].lower is None and sl.elts[0].upper is None and not isinstance(sl.elts[1], (ast.Slice, ast.Constant)):
                sel = ast.unparse(sl.elts[1])
                break
            n = n.value
        out.append(sel)
    return out


def paired_selectors(prog: Program, fi: FuncInfo) -> List[Tuple[str, str, str, ast.Call]]:
    """(selectors on shape, selectors on subs columns, call text, node) for calls receiving both a
    selected shape `<..shape..>[sel]` and selected subscript columns `<..subs..>[:, sel]` (part by part for
    concatenations)."""
    canon = Canon(fi.node)
    out = []
    for c in walk_no_nested(fi.node):
        if not isinstance(c, ast.Call):
            continue
        nm = dotted(c.func) or ""
        base = nm.split(".")[-1] if nm else (c.func.attr if isinstance(c.func, ast.Attribute) else "")
        if base not in ("tt_sub2ind", "tt_ind2sub", "sptensor", "from_aggregator"):
            continue
        shape_l: List[Optional[str]] = []
        subs_l: List[Optional[str]] = []
        for a in list(c.args) + [k.value for k in c.keywords]:
            inl = canon._inline(copy.deepcopy(a), 0)
            sh = _selector_list(inl, "shape")
            su = _selector_list(inl, "subs")
            if any(sh) and not shape_l:
                shape_l = sh
            if any(su) and not subs_l:
                subs_l = su
        if any(subs_l) and not any(shape_l):
            # subscript columns are selected, but the sizes handed over with them are not `shape[selector]`: either a POSITIONAL piece of the
            # shape (np.split / a slice: the first k sizes, whatever modes the selector names) - a definite mismatch - or something the rule
            # cannot read (reported as undecided, so that the site is not lost silently)
            for a in list(c.args) + [k.value for k in c.keywords]:
                inl = canon._inline(copy.deepcopy(a), 0)
                txt = ast.unparse(inl)
                if "shape" in txt and "subs" not in txt:
                    positional = "np.split(" in txt or any(isinstance(x, ast.Subscript) and isinstance(x.slice, ast.Slice) and "shape" in ast.unparse(x.value)
                                                            for x in ast.walk(inl))
                    # ... of the RAW shape: a piece of shape[selector] may well be the right sizes (undecided)
                    reselected = any(isinstance(x, ast.Subscript) and "shape" in ast.unparse(x.value) and "subs" not in ast.unparse(x.value)
                                     and not isinstance(x.slice, (ast.Slice, ast.Constant, ast.Tuple)) for x in ast.walk(inl))
                    positional = positional and not reselected
                    b_txt = next(x for x in subs_l if x)
                    out.append(((f"<positional piece of the shape: {txt[:50]}>" if positional else None), b_txt, ast.unparse(c)[:120], c))
                    break
            continue
        if any(shape_l) and any(subs_l):
            if len(shape_l) == len(subs_l):
                a_txt = " ++ ".join(x or "-" for x in shape_l)
                b_txt = " ++ ".join(x or "-" for x in subs_l)
            else:
                a_txt = next(x for x in shape_l if x)
                b_txt = next(x for x in subs_l if x)
            out.append((a_txt, b_txt, ast.unparse(c)[:120], c))
    return out


# ------------------------------------------------------------------ KR
def khatrirao_calls(prog: Program) -> List[Tuple[FuncInfo, ast.Call, Optional[bool]]]:
    out = []
    for q, fi in sorted(prog.functions.items()):
        if fi.parent:
            continue
        for c in walk_no_nested(fi.node):
            if isinstance(c, ast.Call) and (dotted(c.func) or "").split(".")[-1] == "khatrirao" and fi.name != "khatrirao":
                r = kwarg(c, "reverse")
                v = const(r) if r is not None else False
                out.append((fi, c, v if isinstance(v, bool) else None))
    return out


# ------------------------------------------------------------------ REP: representation reads
def attrs_read(prog: Program, fi: FuncInfo, depth: int = 3, seen=None) -> Set[str]:
    """Attributes of the receiver read by fi, following calls to its own methods / properties."""
    seen = seen if seen is not None else set()
    if fi.qualname in seen or not fi.cls or not fi.params():
        return set()
    seen.add(fi.qualname)
    me = fi.params()[0]
    ci = prog.classes.get(f"{fi.module}.{fi.cls}")
    out: Set[str] = set()
    for n in walk_no_nested(fi.node):
        if isinstance(n, ast.Attribute) and isinstance(n.value, ast.Name) and n.value.id == me:
            if ci and n.attr in ci.methods and depth > 0:
                out |= attrs_read(prog, ci.methods[n.attr], depth - 1, seen)
            else:
                out.add(n.attr)
        # whole-object uses: copy(), passing self to another function (conservatively counts as reading everything)
        if isinstance(n, ast.Call):
            for a in list(n.args) + [k.value for k in n.keywords]:
                if isinstance(a, ast.Name) and a.id == me:
                    out.add("*")
    return out
