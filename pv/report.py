"""Verdict bookkeeping, known findings, evidence files, exit codes."""
from __future__ import annotations

import json
import os
import time
from dataclasses import dataclass, field, asdict
from typing import Dict, List, Optional

VERIF = os.path.dirname(os.path.dirname(os.path.abspath(__file__)))
OK, VIOLATION, UNDECIDED = "OK", "VIOLATION", "UNDECIDED"


@dataclass
class Instance:
    rule: str  # e.g. AL-ret
    function: str  # qualified function, relative to pyttb
    descriptor: str  # semantic descriptor, stable under reformatting
    verdict: str
    where: str = ""  # file:line (diagnostic only — never part of the key)
    detail: str = ""
    nontrivial: bool = True  # verdict needed at least one derived fact

    @property
    def key(self) -> str:
        return f"{self.rule}|{self.function}|{self.descriptor}"


@dataclass
class Result:
    property_id: str
    instances: List[Instance] = field(default_factory=list)
    explanation: str = ""
    assumptions: List[str] = field(default_factory=list)
    floors: Dict[str, int] = field(default_factory=dict)  # rule -> min decided instances
    analysed: Dict[str, int] = field(default_factory=dict)  # what was parsed / examined
    unmodelled: List[str] = field(default_factory=list)
    errors: List[str] = field(default_factory=list)  # analysis errors (exit 2)
    extra: Dict[str, object] = field(default_factory=dict)

    def add(self, rule, function, descriptor, verdict, where="", detail="", nontrivial=True):
        inst = Instance(rule, function, descriptor, verdict, where, detail, nontrivial)
        self.instances.append(inst)
        return inst

    def ok(self, rule, function, descriptor, where="", detail="", nontrivial=True):
        return self.add(rule, function, descriptor, OK, where, detail, nontrivial)

    def bad(self, rule, function, descriptor, where="", detail=""):
        return self.add(rule, function, descriptor, VIOLATION, where, detail)

    def undecided(self, rule, function, descriptor, where="", detail=""):
        return self.add(rule, function, descriptor, UNDECIDED, where, detail)

    def error(self, msg: str):
        self.errors.append(msg)


def load_known() -> List[dict]:
    p = os.path.join(VERIF, "known_findings.json")
    if not os.path.exists(p):
        return []
    with open(p, encoding="utf-8") as fh:
        return json.load(fh).get("findings", [])


def finish(res: Result, tier: str, seed: int, t0: float, selftest: Optional[dict] = None) -> int:
    """Print the report, write evidence, return the exit code."""
    pid = res.property_id
    known = [k for k in load_known() if k.get("property") == pid and k.get("status") == "known"]
    known_keys = {f"{k['rule']}|{k['function']}|{k['descriptor']}": k for k in known}

    # de-duplicate instances by key (same construct reached twice)
    seen: Dict[str, Instance] = {}
    for i in res.instances:
        prev = seen.get(i.key)
        if prev is None or (prev.verdict != VIOLATION and i.verdict == VIOLATION):
            seen[i.key] = i
    insts = list(seen.values())

    viol = [i for i in insts if i.verdict == VIOLATION]
    def listed(i):
        k = known_keys.get(i.key)
        if k is None:
            return False
        # an entry may pin the exact diagnosis: a different failure at the same construct is new
        if "detail_pattern" in k:
            import re
            return re.search(k["detail_pattern"], i.detail) is not None
        return "detail" not in k or k["detail"] == i.detail

    new_viol = [i for i in viol if not listed(i)]
    known_hit = [i for i in viol if listed(i)]
    undec = [i for i in insts if i.verdict == UNDECIDED]
    oks = [i for i in insts if i.verdict == OK]

    # floors: each rule must have decided at least the hand-confirmed number of instances
    soft_errors: List[str] = []
    by_rule: Dict[str, Dict[str, int]] = {}
    for i in insts:
        d = by_rule.setdefault(i.rule, {OK: 0, VIOLATION: 0, UNDECIDED: 0})
        d[i.verdict] += 1
    for rule, floor in res.floors.items():
        d = by_rule.get(rule, {OK: 0, VIOLATION: 0, UNDECIDED: 0})
        decided = d[OK] + d[VIOLATION]
        # the per-rule floor tolerates the merging of duplicated sites by a clean-up (two identical calls hoisted into one): 70 % of the
        # confirmed count; that no FUNCTION drops out of a rule is checked exactly below (tables/rule_sites.json)
        floor = max(1, (7 * floor + 9) // 10) if floor > 2 else floor
        if decided < floor:
            soft_errors.append(
                f"rule {rule}: only {decided} instances decided (floor {floor}, undecided {d[UNDECIDED]}) — "
                "the rule no longer sees the constructs it was confirmed on"
            )

    # sites: a rule must still decide something in every function in which it decided something on the reviewed tree
    try:
        with open(os.path.join(VERIF, "tables", "rule_sites.json"), encoding="utf-8") as fh:
            sites = json.load(fh).get("sites", {}).get(pid, {})
    except FileNotFoundError:
        sites = {}
    tree_functions = getattr(res, "tree_functions", None)
    decided_in: Dict[tuple, int] = {}
    undecided_in: Dict[tuple, int] = {}
    for i in insts:
        tgt = decided_in if i.verdict in (OK, VIOLATION) else undecided_in
        tgt[(i.rule, i.function)] = tgt.get((i.rule, i.function), 0) + 1
    lost = []
    # a function whose reviewed decision was a LISTED known finding that no longer fires (the defect was repaired) may legitimately
    # fall back to undecided: noted below, not an analysis error
    repaired = {tuple(k.split("|")[:2]) for k in known_keys if k not in {i.key for i in known_hit}}
    for rule, fns in sites.items():
        for fn in fns:
            if (rule, fn) in repaired:
                continue
            if tree_functions is not None and fn not in tree_functions and not any(f == fn or f.startswith(fn + ".") for f in tree_functions):
                continue        # the function itself is gone: reported by the rules that are anchored in it
            if decided_in.get((rule, fn), 0) == 0:
                lost.append((rule, fn, undecided_in.get((rule, fn), 0)))
    for rule, fn, und in lost[:6]:
        soft_errors.append(f"rule {rule} no longer decides anything in {fn} ({und} undecided) — it did on the reviewed tree "
                           "(tables/rule_sites.json): the construct it was confirmed on is no longer recognised")

    print(f"pv: property={pid} tier={tier} analysed={json.dumps(res.analysed, sort_keys=True)}")
    for rule in sorted(by_rule):
        d = by_rule[rule]
        print(f"pv:   rule {rule}: ok={d[OK]} violation={d[VIOLATION]} undecided={d[UNDECIDED]}")
    for i in known_hit:
        print(f"KNOWN-FINDING: property={pid} {i.function} [{i.rule}] {i.descriptor} ({i.where})")
    # a known finding that no longer fires is only noted (the defect may have been fixed)
    fired = {i.key for i in known_hit}
    for k in known_keys:
        if k not in fired:
            print(f"pv:   note: listed known finding no longer reported: {k}")

    replay_dir = os.path.join(os.environ.get("PV_EVIDENCE_DIR") or os.path.join(VERIF, "evidence"), "replay")
    code = 0
    # a floor that is not met is an analysis error only when nothing definite was found: a violation is
    # derived from positive facts and stays valid when other instances became undecided
    if soft_errors and not new_viol:
        res.errors.extend(soft_errors)
    elif soft_errors:
        for e in soft_errors:
            print(f"pv:   warning: {e}")
    if res.errors:
        for e in res.errors:
            print(f"ANALYSIS-ERROR property={pid} {e}")
        code = 2
    if selftest and selftest.get("failures"):
        for f in selftest["failures"]:
            print(f"ANALYSIS-ERROR property={pid} self-test: {f}")
        code = 2
    if new_viol and code == 0:
        os.makedirs(replay_dir, exist_ok=True)
        for n, i in enumerate(new_viol):
            rp = os.path.join(replay_dir, f"{pid}-{n}.json")
            with open(rp, "w", encoding="utf-8") as fh:
                json.dump({"property": pid, **asdict(i)}, fh, indent=1)
            print(f"{i.where}: [{i.rule}] {i.function}: {i.descriptor} — {i.detail}")
            print(f"VIOLATION property={pid} replay={rp}")
        code = 1
    elif new_viol:
        for i in new_viol:
            print(f"pv:   (suppressed by analysis error) {i.where}: [{i.rule}] {i.function}: {i.descriptor}")

    decided = len(oks) + len(viol)
    nontriv = len({i.key for i in insts if i.verdict != UNDECIDED and i.nontrivial})

    def show(i: Instance):
        return {"rule": i.rule, "function": i.function, "descriptor": i.descriptor,
                "verdict": i.verdict, "where": i.where, "detail": i.detail[:700]}

    samples = [show(i) for i in (viol + oks)[:40]]
    cov = {
        "evaluations": max(len(insts), 1),
        "distinct_nontrivial": nontriv,
        "rule": "instances = (function, rule, semantic descriptor) enumerated from /repo's current source; "
                "non-trivial = decided (OK/VIOLATION) through at least one derived dataflow/structural fact, "
                "distinct by key",
        "samples": samples or [{"note": "no instances"}],
        "obligations": decided + len(undec),
        "discharged": len(oks),
        "explanation": res.explanation,
        "per_rule": by_rule,
        "undecided": [show(i) for i in undec][:60],
        "undecided_count": len(undec),
        "known_findings_reported": [i.key for i in known_hit],
        "new_violations": [show(i) for i in new_violations_list(new_viol)],
        "unmodelled_api": sorted(set(res.unmodelled))[:80],
        "analysed": res.analysed,
        "checker_cmd": f"python3-vt -m pv check {pid} --tier {tier}",
        "trusted_base": res.assumptions,
        "exhaustive": True,
    }
    cov.update(res.extra)
    if selftest is not None:
        cov["selftest"] = selftest
    ev = {
        "property_id": pid,
        "tier": tier,
        "seed": seed,
        "level": "other",
        "coverage": cov,
        "assumptions": res.assumptions,
        "wall_s": round(time.time() - t0, 3),
        "violations": len(new_viol),
    }
    evdir = os.environ.get("PV_EVIDENCE_DIR") or os.path.join(VERIF, "evidence")   # override only for tooling (seed re-evaluation)
    os.makedirs(evdir, exist_ok=True)
    evp = os.path.join(evdir, f"{pid}.json")
    with open(evp, "w", encoding="utf-8") as fh:
        json.dump(ev, fh, indent=1, sort_keys=True)
    try:
        import jsonschema  # type: ignore

        sp = "/root/.vp/EVIDENCE.schema.json"
        if os.path.exists(sp):
            with open(sp) as fh:
                jsonschema.validate(ev, json.load(fh))
    except ImportError:
        pass
    except Exception as e:  # invalid evidence is an analysis error
        print(f"ANALYSIS-ERROR property={pid} evidence does not validate: {str(e)[:200]}")
        code = code or 2
    print(f"pv: property={pid} decided={decided} ok={len(oks)} known={len(known_hit)} new_violations={len(new_viol)} "
          f"undecided={len(undec)} exit={code}")
    return code


def new_violations_list(v):
    return v
