#!/usr/bin/env python3
"""show_guards.py <repo> <function> — the guard facts of a function on a tree (raises, validator calls, exits) and the reviewed entries."""
import os, sys, json
sys.path.insert(0, os.path.dirname(os.path.dirname(os.path.abspath(__file__))))
from pv.model import Program
from pv.rules import C19
p = Program(sys.argv[1])
for fn in sys.argv[2:]:
    f = C19.Facts(p, p.func(fn))
    print("##", fn)
    for r in f.raises:
        print(" RAISE", r.line, " & ".join(sorted(r.conds)) or "unconditional", "| exits:", r.exits_before, "| msg:", (r.msg or "")[:50])
    for r in f.delegated():
        print(" DELEG", r.line, " & ".join(sorted(r.conds)) or "unconditional", "| exits:", r.exits_before, "|", r.msg)
    for k, c, e in f.vcalls:
        print(" VCALL", k, "when", " & ".join(sorted(c)), "| exits:", e)
    print(" -- table")
    for e in C19.load_table()["entries"]:
        if e["function"] == fn:
            print(" ", e["kind"], e.get("key"), "| when:", e.get("when"), "| exits:", e.get("exits"), "| scope:", e.get("scope"))
