#!/usr/bin/env python3
"""show_norm.py <repo> <function>  — print a function as the engines see it (after de-extraction and role renaming)."""
import ast, os, sys
sys.path.insert(0, os.path.dirname(os.path.dirname(os.path.abspath(__file__))))
from pv.model import Program
p = Program(sys.argv[1])
print("# inlined calls:", getattr(p, "inlined_calls", 0), "renamed locals:", getattr(p, "renamed_locals", 0))
for f in sys.argv[2:]:
    print(ast.unparse(p.func(f).node))
