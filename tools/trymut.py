#!/usr/bin/env python3
"""Apply a textual edit to a scratch copy of /repo and run checks against it.
usage: trymut.py <relpath> <old> <new> <prop> [<prop>...]   (old must occur exactly once)"""
import os, shutil, subprocess, sys, tempfile
rel, old, new, *props = sys.argv[1:]
d = tempfile.mkdtemp(prefix="pvmut-")
try:
    shutil.copytree("/repo/pyttb", os.path.join(d, "pyttb"))
    shutil.copytree("/repo/docs", os.path.join(d, "docs"))
    p = os.path.join(d, rel)
    s = open(p).read()
    n = s.count(old)
    if n != 1:
        print(f"pattern occurs {n} times"); sys.exit(3)
    open(p, "w").write(s.replace(old, new))
    import py_compile
    py_compile.compile(p, doraise=True)
    for pr in props:
        r = subprocess.run(["python3-vt", "-m", "pv", "check", pr, "--repo", d], cwd="/verif", capture_output=True, text=True)
        lines = [l for l in r.stdout.splitlines() if "VIOLATION" in l or "ANALYSIS-ERROR" in l or " — " in l]
        print(f"== {pr}: exit {r.returncode}")
        for l in lines[:8]:
            print("   ", l[:300])
        if r.stderr.strip():
            print(r.stderr[-500:])
finally:
    shutil.rmtree(d)
    # evidence files were rewritten against the mutant: regenerate against /repo
    for pr in props:
        subprocess.run(["python3-vt", "-m", "pv", "check", pr], cwd="/verif", capture_output=True)
