#!/usr/bin/env python3
"""eval_benign.py <name> ...   (refactoring output expected in /tmp/benign/<name>/out)
A behaviour-preserving refactoring must leave every check silent.  Applies the patch in a scratch worktree of /repo HEAD, confirms the
pinned suite and the agent's equivalence demo pass there, runs all 20 checks against it (evidence in a scratch directory) and stores
patch.diff / notes.md / demo.py / meta.json under /verif/benign/<name>/.  /repo itself is never modified."""
import json, os, shutil, subprocess, sys, tempfile
from concurrent.futures import ThreadPoolExecutor
PROPS = [f"C{i:02d}" for i in range(1, 21)]
def sh(cmd, **kw):
    return subprocess.run(cmd, shell=True, capture_output=True, text=True, **kw)
def one(name):
    src = f"/tmp/benign/{name}/out"
    base = tempfile.mkdtemp(prefix="evalbenign-")
    wt = os.path.join(base, "wt")
    try:
        sh(f"git -C /repo worktree add -q --detach {wt} HEAD")
        r = sh(f"git -C {wt} apply {src}/patch.diff")
        if r.returncode:
            return name, "PATCH DOES NOT APPLY " + r.stderr[:200]
        r1 = sh(f"cd {wt} && PYTHONPATH={wt} /venv/bin/python -m pytest -q -p no:cacheprovider 2>&1 | tail -1")
        r2 = sh(f"cd {wt} && PYTHONPATH={wt} timeout 900 /venv/bin/python {src}/demo.py 2>&1 | tail -2")
        alarms, errors = {}, {}
        for p in PROPS:
            r = sh(f"cd /verif && PV_EVIDENCE_DIR={base}/ev python3-vt -m pv check {p} --repo {wt}")
            lines = [l[:500] for l in r.stdout.splitlines() if " — " in l or l.startswith(("VIOLATION", "ANALYSIS-ERROR"))][:3]
            if r.returncode == 1:
                alarms[p] = lines
            elif r.returncode != 0:
                errors[p] = lines
        out = f"/verif/benign/{name}"
        os.makedirs(out, exist_ok=True)
        for f in ("patch.diff", "demo.py", "notes.md"):
            if os.path.exists(os.path.join(src, f)):
                shutil.copy(os.path.join(src, f), os.path.join(out, f))
        meta = {"kind": "behaviour-preserving refactoring", "pinned_suite_with_patch": r1.stdout.strip(), "equivalence_demo_tail": r2.stdout.strip()[-200:],
                "checks_run": PROPS, "false_alarms": alarms, "analysis_errors": errors,
                "verdict": "silent" if not alarms and not errors else ("FALSE ALARM" if alarms else "analysis error")}
        json.dump(meta, open(os.path.join(out, "meta.json"), "w"), indent=1)
        return name, f"suite: {r1.stdout.strip()} | demo: {r2.stdout.strip()[-40:]!r} | {meta['verdict']} alarms {sorted(alarms)} errors {sorted(errors)}"
    finally:
        sh(f"git -C /repo worktree remove --force {wt}")
        shutil.rmtree(base, ignore_errors=True)
with ThreadPoolExecutor(5) as ex:
    for name, msg in ex.map(one, sys.argv[1:]):
        print(name, msg, flush=True)
sh("git -C /repo worktree prune")
