#!/usr/bin/env python3
"""Print the sub-agent prompt for a property id and variant number, and create its scratch worktree."""
import json, subprocess, sys, os
pid, k = sys.argv[1], sys.argv[2]
hint = sys.argv[3] if len(sys.argv) > 3 else ""
for l in open("/verif/properties.jsonl"):
    p = json.loads(l)
    if p["id"] == pid:
        break
base = f"/tmp/seed/{pid}-{k}"
wt = f"{base}/wt"
os.makedirs(base, exist_ok=True)
if not os.path.exists(wt):
    subprocess.run(["git", "-C", "/repo", "worktree", "add", "-q", "--detach", wt, "HEAD"], check=True)
os.makedirs(f"{base}/out", exist_ok=True)
prop = {k_: p[k_] for k_ in ("id", "title", "statement", "quantifier", "why_tests_cant", "anchors")}
print(f"""You are helping to evaluate a verification effort for the Python library sandialabs/pyttb (a NumPy port of the MATLAB Tensor Toolbox). Your job is to play the role of a developer who introduces a realistic, subtle REGRESSION.

You have your own scratch git worktree of the repository at {wt} (work ONLY there; never touch /repo or /verif, and do not read anything under /verif). Python with all dependencies is /venv/bin/python. IMPORTANT: always run Python as `cd {wt} && PYTHONPATH={wt} /venv/bin/python ...` so that the worktree's copy of pyttb is imported (check with `python -c "import pyttb; print(pyttb.__file__)"`).

Here is a semantic property that the library is supposed to satisfy (JSON):

{json.dumps(prop, indent=1)}

TASK: make ONE small change to the library source under {wt}/pyttb (a few lines, the kind of slip a maintainer could make in a refactor or "optimisation") that BREAKS this property, while
  (a) the code still imports / compiles, and
  (b) the existing pinned test suite still passes completely: `cd {wt} && PYTHONPATH={wt} /venv/bin/python -m pytest -q -p no:cacheprovider` must report 208 passed (these are the doctests of the package), and
  (c) the breakage needs something SPECIFIC to manifest - an unusual input (e.g. unsorted stored order, non-cubical shape, a proper subset of modes, exactly one nonzero, negative values, a non-involutive permutation), a particular sequence of operations, a particular option combination, or two cooperating sites that each look fine alone - NOT something that ordinary use or the doctests would expose at once.
{hint}
Do not edit tests, docstrings' examples, or anything outside {wt}/pyttb. Do not add new files to the package. Keep the change minimal and plausible.

DELIVERABLES (write them into {base}/out/):
  1. patch.diff  - output of `git -C {wt} diff` (your change only).
  2. demo.py     - a small standalone program that uses the public API, exits with status 0 and prints PASS on the ORIGINAL code, and exits non-zero (assert failure) with your change applied. Run it as `cd {wt} && PYTHONPATH={wt} /venv/bin/python {base}/out/demo.py`. Verify BOTH directions yourself. NEVER use `git stash` (it is shared between worktrees and other people work concurrently): to switch, save your change with `git -C {wt} diff > {base}/out/patch.diff`, go back to the original with `git -C {wt} apply -R {base}/out/patch.diff`, and re-apply with `git -C {wt} apply {base}/out/patch.diff`.
  3. notes.md    - 5-10 lines: what you changed, why it breaks the property, what specific input/sequence is needed for it to manifest, and the exact commands you ran with their results (pytest summary line with and without the change, demo result with and without the change).
Leave the worktree WITH your change applied when you finish. In your final answer, summarise the change in 3-4 lines.""")
