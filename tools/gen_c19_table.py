#!/usr/bin/env python3
"""Regenerate tables/c19_guards.json from /repo's CURRENT tree and apply the review overrides.

Run this only after reviewing the diff of the table: the table is the frozen, reviewed set of guard
obligations; the check never writes it."""
import json, os, sys
HERE = os.path.dirname(os.path.dirname(os.path.abspath(__file__)))
sys.path.insert(0, HERE)
from pv.model import Program
from pv.rules import C19

prog = Program(sys.argv[1] if len(sys.argv) > 1 else "/repo")
table = C19.extract_table(prog)
rev_path = os.path.join(HERE, "tables", "c19_review.json")
review = json.load(open(rev_path)) if os.path.exists(rev_path) else {"overrides": []}
n_out = n_ex = 0
for e in table["entries"]:
    for o in review["overrides"]:
        if o["function"] == e["function"] and o.get("kind", e["kind"]) == e["kind"] and (o.get("key") is None or o["key"] == e.get("key")):
            if o.get("scope") == "out":
                e["scope"] = "out"; e["reason"] = o["reason"]; n_out += 1
            for x in o.get("disallow_exits", []):
                if x in e.get("exits", []):
                    e["exits"].remove(x); n_ex += 1
json.dump(table, open(os.path.join(HERE, "tables", "c19_guards.json"), "w"), indent=0, sort_keys=True)
kinds = {}
for e in table["entries"]:
    kinds[e["kind"]] = kinds.get(e["kind"], 0) + 1
print("entries", kinds, "out-of-scope", n_out, "exits disallowed", n_ex)
