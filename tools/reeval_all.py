#!/usr/bin/env python3
"""Re-run all 20 checks against every stored seed (patch applied in a scratch worktree of /repo HEAD, evidence written to a
scratch directory) and refresh the verdict in seeded/<name>/meta.json.  Usage: python3 tools/reeval_all.py [name ...]"""
import json, os, shutil, subprocess, sys, tempfile
from concurrent.futures import ThreadPoolExecutor
names = sys.argv[1:] or sorted(os.listdir("/verif/seeded"))
PROPS = [f"C{i:02d}" for i in range(1, 21)]
def sh(cmd, **kw):
    return subprocess.run(cmd, shell=True, capture_output=True, text=True, **kw)
def one(name):
    base = tempfile.mkdtemp(prefix="reeval-")
    wt = os.path.join(base, "wt")
    try:
        r = sh(f"git -C /repo worktree add -q --detach {wt} HEAD")
        if r.returncode:
            return name, "worktree failed " + r.stderr
        r = sh(f"git -C {wt} apply /verif/seeded/{name}/patch.diff")
        if r.returncode:
            return name, "PATCH DOES NOT APPLY"
        caught, errors = {}, {}
        for p in PROPS:
            r = sh(f"cd /verif && PV_EVIDENCE_DIR={base}/ev python3-vt -m pv check {p} --repo {wt}")
            lines = [l[:400] for l in r.stdout.splitlines() if " — " in l or l.startswith(("VIOLATION", "ANALYSIS-ERROR"))][:2]
            if r.returncode == 1:
                caught[p] = lines
            elif r.returncode != 0:
                errors[p] = lines
        mp = f"/verif/seeded/{name}/meta.json"
        m = json.load(open(mp))
        m["caught_by"], m["analysis_errors"] = caught, errors
        m["verdict"] = "caught" if m["property"] in caught else ("caught-by-other-property" if caught else "missed")
        json.dump(m, open(mp, "w"), indent=1)
        return name, f"{m['verdict']} {sorted(caught)} errors {sorted(errors)}"
    finally:
        sh(f"git -C /repo worktree remove --force {wt}")
        shutil.rmtree(base, ignore_errors=True)
with ThreadPoolExecutor(7) as ex:
    for name, msg in ex.map(one, names):
        print(name, msg, flush=True)
sh("git -C /repo worktree prune")
