#!/bin/sh
# run every claimed check (quick) on /repo; print one line per property; exit 1 if any is not 0
cd /verif || exit 2
rc=0
for p in $(python3 -c "import json;print(' '.join(c['property_id'] for c in json.load(open('MANIFEST.json'))['checks']))"); do
  out=$(python3-vt -m pv check $p 2>&1); e=$?
  echo "$p exit=$e $(echo "$out" | tail -1 | sed 's/^pv: //')"
  [ $e -ne 0 ] && { rc=1; echo "$out" | grep -E "VIOLATION|ANALYSIS-ERROR| — " | head -5; }
done
exit $rc
