#!/usr/bin/env python3
"""Per rule: decided-instance count on the clean tree vs the minimum over the stored behaviour-preserving refactorings
(a refactoring that lowers a count loses coverage silently unless the floor is at the clean count)."""
import json, os, shutil, subprocess, sys, tempfile, collections
from concurrent.futures import ThreadPoolExecutor
PROPS = [f"C{i:02d}" for i in range(1, 21)]
names = sys.argv[1:] or sorted(os.listdir("/verif/benign"))
def sh(cmd):
    return subprocess.run(cmd, shell=True, capture_output=True, text=True)
def counts(evdir):
    out = {}
    for p in PROPS:
        try:
            d = json.load(open(f"{evdir}/{p}.json"))
        except Exception:
            continue
        for r, c in d["coverage"]["per_rule"].items():
            out[(p, r)] = c["OK"] + c["VIOLATION"]
    return out
def one(name):
    base = tempfile.mkdtemp(prefix="cntbenign-")
    wt = os.path.join(base, "wt")
    try:
        if name == "CLEAN":
            wt = "/repo"
        else:
            sh(f"git -C /repo worktree add -q --detach {wt} HEAD")
            if sh(f"git -C {wt} apply /verif/benign/{name}/patch.diff").returncode:
                return name, {}
        for p in PROPS:
            sh(f"cd /verif && PV_EVIDENCE_DIR={base}/ev python3-vt -m pv check {p} --repo {wt}")
        return name, counts(f"{base}/ev")
    finally:
        if name != "CLEAN":
            sh(f"git -C /repo worktree remove --force {wt}")
        shutil.rmtree(base, ignore_errors=True)
with ThreadPoolExecutor(6) as ex:
    res = dict(ex.map(one, ["CLEAN"] + names))
clean = res.pop("CLEAN")
low = collections.defaultdict(list)
for n, c in res.items():
    for k, v in clean.items():
        if c and c.get(k, 0) < v:
            low[k].append((n, c.get(k, 0)))
json.dump({"clean": {f"{p}|{r}": v for (p, r), v in clean.items()}, "lower": {f"{p}|{r}": v for (p, r), v in low.items()}}, open("/tmp/count_benign.json", "w"), indent=1)
for (p, r), v in sorted(low.items()):
    print(p, r, "clean", clean[(p, r)], "lower in:", v)
sh("git -C /repo worktree prune")
