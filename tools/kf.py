#!/usr/bin/env python3
"""Add an entry to known_findings.json:  kf.py <property> <rule> <function> <descriptor> <status> <failing_input> [why_not_fixed]"""
import json, sys, os
p = os.path.join(os.path.dirname(os.path.dirname(os.path.abspath(__file__))), "known_findings.json")
d = json.load(open(p))
prop, rule, fn, desc, status, inp = sys.argv[1:7]
e = {"property": prop, "rule": rule, "function": fn, "descriptor": desc, "status": status, "failing_input": inp}
if len(sys.argv) > 7:
    e["why_not_fixed"] = sys.argv[7]
d["findings"] = [f for f in d["findings"] if not (f["property"] == prop and f["rule"] == rule and f["function"] == fn and f["descriptor"] == desc)]
d["findings"].append(e)
json.dump(d, open(p, "w"), indent=1)
print("recorded", prop, rule, fn, status)
