#!/usr/bin/env python3
"""Print the sub-agent prompt for a BEHAVIOUR-PRESERVING refactoring near a property's anchors, and create its scratch worktree."""
import json, subprocess, sys, os
pid, k = sys.argv[1], sys.argv[2]
for l in open("/verif/properties.jsonl"):
    p = json.loads(l)
    if p["id"] == pid:
        break
base = f"/tmp/benign/{pid}-{k}"
wt = f"{base}/wt"
os.makedirs(base, exist_ok=True)
if not os.path.exists(wt):
    subprocess.run(["git", "-C", "/repo", "worktree", "add", "-q", "--detach", wt, "HEAD"], check=True)
os.makedirs(f"{base}/out", exist_ok=True)
prop = {k_: p[k_] for k_ in ("id", "title", "statement", "quantifier", "anchors")}
print(f"""You are helping to evaluate a verification effort for the Python library sandialabs/pyttb (a NumPy port of the MATLAB Tensor Toolbox). Your job is to play the role of a careful maintainer who REFACTORS code WITHOUT changing its behaviour.

You have your own scratch git worktree of the repository at {wt} (work ONLY there; never touch /repo or /verif, and do not read anything under /verif). Python with all dependencies is /venv/bin/python. IMPORTANT: always run Python as `cd {wt} && PYTHONPATH={wt} /venv/bin/python ...` so that the worktree's copy of pyttb is imported.

Here is a semantic property that the library satisfies (JSON); its "anchors" tell you which code implements it:

{json.dumps(prop, indent=1)}

TASK: make a realistic, BEHAVIOUR-PRESERVING refactoring (roughly 10-60 changed lines in total, in one to three functions) of code that implements this property under {wt}/pyttb. Use the kinds of edits maintainers really make, and combine several of them:
  - rename local variables (and private helper names) to clearer names,
  - extract a sub-expression into a local variable or inline a local that is used once,
  - restructure control flow without changing it (early return vs. else, merge or split nested ifs, flip a condition and swap the branches, turn `if not a: raise` into a guard clause),
  - replace an explicit loop by an exactly equivalent comprehension / numpy expression or vice versa (results must be bit-for-bit equal, including dtype and memory order of anything returned),
  - use an equivalent numpy spelling (`np.dot(a, b)` vs `a @ b`, `x.reshape(..)` vs `np.reshape(x, ..)`, `np.concatenate` vs `np.hstack`, keyword vs positional arguments),
  - reorder statements that are independent of each other, move a computation closer to its use,
  - add or reword comments, add type annotations.
The refactoring MUST NOT change the behaviour for ANY input: same results (bit-for-bit), same exceptions for invalid input, no change of what is copied or aliased, no change of side effects on arguments, no change of random-number consumption. The property above must hold exactly as before. Do NOT fix bugs, do NOT change public signatures, do NOT touch tests or docstring examples, do NOT add files.

CHECKS you must run:
  (a) `cd {wt} && PYTHONPATH={wt} /venv/bin/python -m pytest -q -p no:cacheprovider` reports 208 passed;
  (b) `cd {wt} && PYTHONPATH={wt} /venv/bin/python -m pytest -q -p no:cacheprovider tests -x -q --deselect tests/test_package.py` (the functional tests; the four tool tests in tests/test_package.py fail in this sandbox for unrelated reasons) passes as it does before your change;
  (c) an equivalence demo: write {base}/out/demo.py that exercises the refactored functions on at least 200 random inputs of varied shapes / options (including edge cases the property mentions) and compares, bit-for-bit, against the ORIGINAL implementation. To have the original available, copy the original file(s) before editing, e.g. `cp {wt}/pyttb/tensor.py {base}/out/orig_tensor.py`, and load it in the demo with importlib under another module name (or call `git -C {wt} show HEAD:pyttb/tensor.py` into a temp module). The demo prints PASS and exits 0.

DELIVERABLES (write them into {base}/out/):
  1. patch.diff  - output of `git -C {wt} diff`.
  2. demo.py     - the equivalence demo (c), passing.
  3. notes.md    - 5-10 lines: which functions you refactored, which kinds of edits, and the exact results of (a), (b), (c).
NEVER use `git stash`. Leave the worktree WITH your change applied. In your final answer, summarise the refactoring in 3-4 lines.""")
