#!/usr/bin/env python3
"""keep_seed.py <seed dir under /tmp/seed> <name under /verif/seeded> <property> "<what it needs to manifest>"
Confirms the seed (demo passes unchanged, suite passes patched, demo fails patched), runs ALL claimed checks on the
patched /repo, and stores patch.diff / demo.py / notes.md / meta.json under /verif/seeded/<name>/."""
import json, os, shutil, subprocess, sys
src, name, prop, needs = sys.argv[1:5]
out = f"/verif/seeded/{name}"
os.makedirs(out, exist_ok=True)
props = [c["property_id"] for c in json.load(open("/verif/MANIFEST.json"))["checks"]]
r = subprocess.run(["python3", "/verif/tools/eval_seed.py", src] + props, capture_output=True, text=True)
if r.returncode != 0:
    print(r.stdout, r.stderr); sys.exit(1)
ev = json.loads(r.stdout)
ok = ev["demo_unchanged_exit"] == 0 and "208 passed" in ev["suite_with_patch"] and ev["demo_patched_exit"] != 0
caught = {p: c for p, c in ev["checks"].items() if c["exit"] == 1}
errors = {p: c for p, c in ev["checks"].items() if c["exit"] not in (0, 1)}
for f in ("patch.diff", "demo.py", "notes.md"):
    if os.path.exists(os.path.join(src, f)) and os.path.abspath(src) != os.path.abspath(out):
        shutil.copy(os.path.join(src, f), os.path.join(out, f))
meta = {
    "property": prop,
    "needs_to_manifest": needs,
    "confirmed": ok,
    "ran": {
        "demo_on_unchanged_repo_exit": ev["demo_unchanged_exit"],
        "pinned_suite_with_patch": ev["suite_with_patch"],
        "demo_with_patch_exit": ev["demo_patched_exit"],
        "checks_run": props,
    },
    "caught_by": {p: c["report"][:2] for p, c in caught.items()},
    "analysis_errors": {p: c["report"][:2] for p, c in errors.items()},
    "verdict": "caught" if prop in caught else ("caught-by-other-property" if caught else "missed"),
}
json.dump(meta, open(os.path.join(out, "meta.json"), "w"), indent=1)
print(name, "confirmed" if ok else "NOT CONFIRMED", "| caught by", sorted(caught), "| errors", sorted(errors), "|", meta["verdict"])
