#!/usr/bin/env python3
"""Regenerate /verif/MANIFEST.json from the table below (single source of truth)."""
import importlib
import json
import os
import sys

HERE = os.path.dirname(os.path.dirname(os.path.abspath(__file__)))
sys.path.insert(0, HERE)

ALL = [f"C{n:02d}" for n in range(1, 21)]

# property -> (technique, level text, level note, DESIGN ref)
CLAIMED = {}
NOT_APPLICABLE = {}


def load():
    from pv import manifest_table as mt

    CLAIMED.update(mt.CLAIMED)
    NOT_APPLICABLE.update(mt.NOT_APPLICABLE)


def main():
    load()
    checks = []
    for pid in ALL:
        if pid not in CLAIMED:
            continue
        c = CLAIMED[pid]
        checks.append({
            "property_id": pid,
            "quick_cmd": f"python3-vt -m pv check {pid} --tier quick",
            "thorough_cmd": f"python3-vt -m pv check {pid} --tier thorough",
            "evidence_file": f"/verif/evidence/{pid}.json",
            "replay_cmd_template": f"python3-vt -m pv check {pid} --tier quick --replay {{path}}",
            "engine": "pv",
            "level_claimed": {"category": "other", "text": c["level"], "design_ref": c.get("ref", f"DESIGN.md §4 {pid}")},
            "level_note": c["note"],
            "technique": c["technique"],
        })
    na = []
    for pid in ALL:
        if pid in CLAIMED:
            continue
        na.append({"property_id": pid, "reason": NOT_APPLICABLE.get(pid, "check not built yet (work in progress; see DESIGN.md §4)")})
    man = {
        "version": 1,
        "setup_cmd": "python3-vt -c \"import sympy, networkx, jsonschema, ast; print('pv tooling ok')\"",
        "hooks": {
            "guard": "PYTTB_VERIF",
            "enable": "none needed: the checks read /repo/pyttb's source with ast and never import or build it",
            "baseline_off_cmd": "cd /repo && /venv/bin/python -m pytest -q -p no:cacheprovider --timeout=900",
            "source_commits": [],
            "add_only": True,
        },
        "engines": [
            {"name": "pv", "path": "/verif/pv", "serves_properties": sorted(CLAIMED),
             "kind_free_text": "repository-specific static analysis over Python ast: resolved program model, "
                               "alias/ownership dataflow, enumeration-order and index-provenance typing, guard "
                               "must-pass-through, eigen typestate, symbolic term rewriting (sympy) — no execution of pyttb"},
        ],
        "checks": checks,
        "not_applicable": na,
        "notes": "All checks are static (family: static analysis). Exit 0 = every decided instance holds (known findings "
                 "printed as KNOWN-FINDING), 1 = VIOLATION not listed in known_findings.json, 2 = ANALYSIS-ERROR "
                 "(anchor vanished, floor not met, internal error). Evidence level 'other': structural necessary "
                 "conditions of each behavioural property; the evidence file lists clauses decided and not decided.",
    }
    with open(os.path.join(HERE, "MANIFEST.json"), "w") as fh:
        json.dump(man, fh, indent=1)
    try:
        import jsonschema
        with open("/root/.vp/MANIFEST.schema.json") as fh:
            jsonschema.validate(man, json.load(fh))
        print("MANIFEST.json valid;", len(checks), "checks,", len(na), "not_applicable")
    except ImportError:
        print("MANIFEST.json written (jsonschema not available)")


if __name__ == "__main__":
    main()
