#!/usr/bin/env python3
"""eval_new.py <name>=<property>[:<needs text>] ...   (seed output expected in /tmp/seed/<name>/out)
Confirms each new seed in its own scratch worktree of /repo HEAD (demo passes on /repo, pinned suite passes with the patch,
demo fails with the patch), runs all 20 checks against the patched worktree with evidence in a scratch directory, and stores
patch.diff / demo.py / notes.md / meta.json under /verif/seeded/<name>/.  /repo itself is never modified."""
import json, os, shutil, subprocess, sys, tempfile
from concurrent.futures import ThreadPoolExecutor
PROPS = [f"C{i:02d}" for i in range(1, 21)]
def sh(cmd, **kw):
    return subprocess.run(cmd, shell=True, capture_output=True, text=True, **kw)
def one(spec):
    name, rest = spec.split("=", 1)
    prop, _, needs = rest.partition(":")
    src = f"/tmp/seed/{name}/out"
    base = tempfile.mkdtemp(prefix="evalnew-")
    wt = os.path.join(base, "wt")
    try:
        r0 = sh(f"cd /repo && PYTHONPATH=/repo /venv/bin/python {src}/demo.py")
        sh(f"git -C /repo worktree add -q --detach {wt} HEAD")
        r = sh(f"git -C {wt} apply {src}/patch.diff")
        if r.returncode:
            return name, "PATCH DOES NOT APPLY " + r.stderr[:200]
        r1 = sh(f"cd {wt} && PYTHONPATH={wt} /venv/bin/python -m pytest -q -p no:cacheprovider 2>&1 | tail -1")
        r2 = sh(f"cd {wt} && PYTHONPATH={wt} /venv/bin/python {src}/demo.py")
        ok = r0.returncode == 0 and "208 passed" in r1.stdout and r2.returncode != 0
        caught, errors = {}, {}
        for p in PROPS:
            r = sh(f"cd /verif && PV_EVIDENCE_DIR={base}/ev python3-vt -m pv check {p} --repo {wt}")
            lines = [l[:400] for l in r.stdout.splitlines() if " — " in l or l.startswith(("VIOLATION", "ANALYSIS-ERROR"))][:2]
            if r.returncode == 1:
                caught[p] = lines
            elif r.returncode != 0:
                errors[p] = lines
        out = f"/verif/seeded/{name}"
        os.makedirs(out, exist_ok=True)
        for f in ("patch.diff", "demo.py", "notes.md"):
            if os.path.exists(os.path.join(src, f)):
                shutil.copy(os.path.join(src, f), os.path.join(out, f))
        meta = {"property": prop, "needs_to_manifest": needs, "confirmed": ok,
                "ran": {"demo_on_unchanged_repo_exit": r0.returncode, "pinned_suite_with_patch": r1.stdout.strip(),
                        "demo_with_patch_exit": r2.returncode, "checks_run": PROPS},
                "caught_by": caught, "analysis_errors": errors,
                "verdict": "caught" if prop in caught else ("caught-by-other-property" if caught else "missed")}
        json.dump(meta, open(os.path.join(out, "meta.json"), "w"), indent=1)
        first = next(iter(caught.values()), [""])
        return name, f"{'confirmed' if ok else 'NOT CONFIRMED'} | {meta['verdict']} {sorted(caught)} errors {sorted(errors)} | {first[0][:260] if first else ''}"
    finally:
        sh(f"git -C /repo worktree remove --force {wt}")
        shutil.rmtree(base, ignore_errors=True)
with ThreadPoolExecutor(5) as ex:
    for name, msg in ex.map(one, sys.argv[1:]):
        print(name, msg, flush=True)
sh("git -C /repo worktree prune")
