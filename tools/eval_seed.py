#!/usr/bin/env python3
"""Evaluate a seeded change: eval_seed.py <dir with patch.diff + demo.py> <property> [more properties]
 1. demo passes on the unchanged /repo           2. patch applies; pinned suite still 208 passed
 3. demo fails with the patch                     4. run the given checks against the patched /repo
 always: git -C /repo checkout -- .  afterwards, and regenerate the evidence files on the clean tree."""
import json, os, subprocess, sys
d, *props = sys.argv[1:]
if props == ["all"]:
    props = [f"C{i:02d}" for i in range(1, 21)]
patch, demo = os.path.join(d, "patch.diff"), os.path.join(d, "demo.py")
def sh(cmd, **kw):
    return subprocess.run(cmd, shell=True, capture_output=True, text=True, **kw)
out = {"dir": d, "properties": props}
assert sh("git -C /repo status --porcelain").stdout.strip() == "", "/repo not clean"
r = sh(f"cd /repo && PYTHONPATH=/repo /venv/bin/python {demo}")
out["demo_unchanged_exit"] = r.returncode
r = sh(f"git -C /repo apply {patch}")
if r.returncode != 0:
    print("PATCH DOES NOT APPLY", r.stderr); sys.exit(3)
try:
    r = sh("cd /repo && /venv/bin/python -m pytest -q -p no:cacheprovider 2>&1 | tail -1")
    out["suite_with_patch"] = r.stdout.strip()
    r = sh(f"cd /repo && PYTHONPATH=/repo /venv/bin/python {demo}")
    out["demo_patched_exit"] = r.returncode
    out["demo_patched_tail"] = (r.stdout + r.stderr).strip().splitlines()[-1:] 
    out["checks"] = {}
    from concurrent.futures import ThreadPoolExecutor
    def one(p):
        r = sh(f"cd /verif && python3-vt -m pv check {p}")
        lines = [l for l in r.stdout.splitlines() if " — " in l or l.startswith(("VIOLATION", "ANALYSIS-ERROR"))]
        return p, {"exit": r.returncode, "report": [l[:400] for l in lines[:6]]}
    with ThreadPoolExecutor(16) as ex:
        for p, v in ex.map(one, props):
            out["checks"][p] = v
finally:
    sh("git -C /repo checkout -- .")
    from concurrent.futures import ThreadPoolExecutor
    with ThreadPoolExecutor(16) as ex:
        list(ex.map(lambda p: sh(f"cd /verif && python3-vt -m pv check {p}"), props))
print(json.dumps(out, indent=1))
