#!/usr/bin/env python3
"""Re-run all 20 checks against every stored behaviour-preserving refactoring (/verif/benign/<name>/patch.diff applied in a scratch
worktree of /repo HEAD).  Every one of them must be silent (exit 0 everywhere).  Usage: python3 tools/reeval_benign.py [name ...]"""
import json, os, shutil, subprocess, sys, tempfile
from concurrent.futures import ThreadPoolExecutor
names = sys.argv[1:] or sorted(os.listdir("/verif/benign"))
PROPS = [f"C{i:02d}" for i in range(1, 21)]
def sh(cmd, **kw):
    return subprocess.run(cmd, shell=True, capture_output=True, text=True, **kw)
def one(name):
    base = tempfile.mkdtemp(prefix="rebenign-")
    wt = os.path.join(base, "wt")
    try:
        sh(f"git -C /repo worktree add -q --detach {wt} HEAD")
        r = sh(f"git -C {wt} apply /verif/benign/{name}/patch.diff")
        if r.returncode:
            return name, "PATCH DOES NOT APPLY", []
        alarms, errors, lines_all = {}, {}, []
        for p in PROPS:
            r = sh(f"cd /verif && PV_EVIDENCE_DIR={base}/ev python3-vt -m pv check {p} --repo {wt}")
            lines = [l[:600] for l in r.stdout.splitlines() if " — " in l or l.startswith("ANALYSIS-ERROR")][:4]
            if r.returncode == 1:
                alarms[p] = lines
            elif r.returncode != 0:
                errors[p] = lines
            if r.returncode:
                lines_all += [f"   {p}: {l}" for l in lines]
        mp = f"/verif/benign/{name}/meta.json"
        m = json.load(open(mp))
        m["false_alarms"], m["analysis_errors"] = alarms, errors
        m["verdict"] = "silent" if not alarms and not errors else ("FALSE ALARM" if alarms else "analysis error")
        json.dump(m, open(mp, "w"), indent=1)
        return name, f"{m['verdict']} alarms {sorted(alarms)} errors {sorted(errors)}", lines_all
    finally:
        sh(f"git -C /repo worktree remove --force {wt}")
        shutil.rmtree(base, ignore_errors=True)
with ThreadPoolExecutor(7) as ex:
    for name, msg, lines in ex.map(one, names):
        print(name, msg, flush=True)
        for l in lines:
            print(l[:420])
sh("git -C /repo worktree prune")
