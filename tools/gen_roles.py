#!/usr/bin/env python3
"""Regenerate tables/roles.json from /repo (run after every reviewed change of /repo, like gen_c19_table.py)."""
import json, os, sys
sys.path.insert(0, os.path.dirname(os.path.dirname(os.path.abspath(__file__))))
from pv import roles
repo = sys.argv[1] if len(sys.argv) > 1 else "/repo"
t = roles.generate(os.path.join(repo, "pyttb"))
json.dump(t, open(roles.TABLE, "w"), indent=0, sort_keys=True)
print("functions", len(t["functions"]), "locals", sum(len(v) for v in t["functions"].values()))
