#!/usr/bin/env python3
"""record_fixed.py <property> <old_commit> <fix_commit> <failing input text> [function filter]
Runs the property's check on a worktree of /repo at <old_commit>; every violation found there that is NOT a
violation on the current tree is recorded in known_findings.json as fixed:<fix_commit>."""
import json, os, subprocess, sys, tempfile
prop, old, fixc, inp = sys.argv[1:5]
flt = sys.argv[5] if len(sys.argv) > 5 else ""
def viol(repo):
    subprocess.run(["python3-vt", "-m", "pv", "check", prop, "--repo", repo], cwd="/verif", capture_output=True)
    e = json.load(open("/verif/evidence/%s.json" % prop))
    return {(v["rule"], v["function"], v["descriptor"]) for v in e["coverage"]["new_violations"]} | \
           {tuple(k.split("|", 2)) for k in e["coverage"]["known_findings_reported"]}
d = tempfile.mkdtemp()
subprocess.run(["git", "-C", "/repo", "worktree", "add", "-q", d, old], check=True)
try:
    oldv = viol(d)
finally:
    subprocess.run(["git", "-C", "/repo", "worktree", "remove", "--force", d])
newv = viol("/repo")
for (rule, fn, desc) in sorted(oldv - newv):
    if flt and flt not in fn:
        continue
    subprocess.run(["python3", "/verif/tools/kf.py", prop, rule, fn, desc, "fixed:" + fixc, inp], check=True)
